/-
  C15 — the caching schedule names real leaves and never exceeds the memory limit.

  "For any recorded sequence of block summaries, every position scheduled for a block is the
   insertion slot of a leaf added in that block and deleted in a later recorded block, listed
   once and in ascending order.  At no block do more than the requested number of scheduled
   leaves exist simultaneously, and when the limit is at least the number of leaves ever alive
   the schedule contains every such leaf."

  Model: `Model/Schedule.lean` (transliteration of `AddBlockSummary`, `getPrevPos` & co,
  `genTTLs`, `GenerateCachingSchedule`).  `GenerateCachingSchedule` is `genTTLs` (block
  summaries ↦ per-block tables of `(position, ttl)`) followed by the eviction loop
  (`Model.scheduleOfTTLs`: tables ↦ schedule).

  What is proved here, for ALL inputs (any sequence of block summaries — arbitrary targets,
  not only prover-emitted ones —, any limit, any `getPrevPos` variant):

  * `ttls_positive`           every ttl recorded by `genTTLs` is positive and ends inside the
                              recorded blocks (no hypothesis);
  * `order_ascending`         every block's list is in ascending order (no hypothesis);
  * `order_strict`            … strictly ascending, i.e. duplicate-free, when the positions in
                              the ttl tables are pairwise distinct (`Distinct`);
  * `scheduled_is_entry`      every scheduled position is the position of an entry of THAT
                              block's ttl table whose ttl ends inside the recorded blocks;
  * `memory_bound`            for every block τ, the scheduled entries that exist after block τ
                              (entry `(pos, ttl)` of block `i`, `i ≤ τ < i + ttl`) number at most
                              `maxMemory` (under `Distinct`);
  * `complete_wrt_tables`     if `maxMemory ≥` the number of table entries, every table entry
                              is scheduled, in the list of its own block (under `Distinct`);
  * `complete_of_limit_ge_targets`  the same with the threshold "number of deletion targets
                              recorded" (`genTTLs` records at most one entry per target);
  * `generate_total`          under `Distinct`, `GenerateCachingSchedule` cannot panic once
                              `genTTLs` has returned and the limit is non-negative.

  `Distinct` (the positions in the ttl tables are pairwise distinct) is exactly what the
  eviction loop needs: `createHeights` is keyed by position.  It holds whenever `genTTLs` is
  right (the positions are then insertion slots).  Positivity of the ttls — the other fact the
  loop relies on — is proved, not assumed.

  [Update: `Props/C15b.lean` proves `genTTLs_exact` and the full property `C15` for
  `getPrevPosFixed` (= the code of /repo now) on every history with at most 2^62 leaves, and shows
  why the bound `2^63` of `C15_statement` below is too generous (finding C15.leftChildOfLeaf).]

  What is NOT proved IN THIS FILE: that the tables produced by `genTTLs` are exactly the leaves' lifetimes
  (`genTTLs_exact_statement`).  With it the theorems above give the property in full
  (`C15_statement`); it needs the inverse-movement lemmas for `calcPrevPosition` /
  `undoSingleAdd` / `undoDel` in 63-row coordinates (shared with C08) and is left open.
  For the UNCHANGED /repo it is false, and so is the property: `C15_fails_createdMovedByUndoDel`
  (a 3-block history with 2 leaves) — `getPrevPos` lets `undoDel` move the positions that
  `undoAdd` has just identified as created in the block.  With the proposed repair
  (`getPrevPosFixed`) the differential runs find no deviation.
-/
import UtreexoVerif.Proofs.Schedule
import UtreexoVerif.Spec.Sched

namespace UtreexoVerif.Props.C15
open UtreexoVerif Model Proofs.Schedule Spec.Sched

-- ---------------------------------------------------------------- the full statement

/-- the block summaries a recorded history produces: per block the prover's targets for the
deleted slots (`Spec.Sched.targetOf`: position in the collapsed forest, encoded for
`TreeRows(leaf count)` rows, in the order the block names the leaves) and the addition count -/
def summariesOf (h : History) : Option (List (List U64 × U16)) :=
  let L := lives h
  h.zipIdx.mapM fun (bt : Block × Nat) => do
    let tg ← bt.1.delSlots.mapM (fun s => L.targetOf bt.2 s)
    pure (tg.map (BitVec.ofNat 64), BitVec.ofNat 16 bt.1.numAdds)

/-- **C15, full statement**, for a given `getPrevPos`: for every well-formed block history
(any deletions of live leaves — including blocks that empty whole trees —, 0..65535 additions
per block, fewer than 2^63 leaves in total) and every limit ≥ 1, feeding the summaries to a
tracker and calling `GenerateCachingSchedule(limit)` returns a schedule that the oracle of
`Spec/Sched.lean` (order/uniqueness, slot correctness, memory bound, completeness) accepts. -/
def C15_statement (gpp : PrevPosFn) : Prop :=
  ∀ (h : History) (limit : Nat) (blocks : List (List U64 × U16)),
    wellFormed h = true → (∀ b ∈ h, b.numAdds < 65536) → total h < 2^63 → 1 ≤ limit →
    summariesOf h = some blocks →
    ∃ tr cs sch, Tracker.ofBlocks blocks = .ok tr ∧
      tr.generateCachingScheduleWith gpp (limit : Int) = .ok (cs, sch) ∧
      orderOK (sch.map (·.map (·.toNat))) = true ∧
      slotsOK h (sch.map (·.map (·.toNat))) = true ∧
      memOK h limit (sch.map (·.map (·.toNat))) = true ∧
      completeOK h limit (sch.map (·.map (·.toNat))) = true

/-- the ttl tables of a history as they should be: table `t` lists, in ascending order, the
insertion slots of block `t` whose leaf is deleted in a later recorded block `d`, with ttl
`d - t` -/
def lifetimeTables (h : History) : List (List TTLInfo) :=
  let L := lives h
  (List.range h.length).map fun t =>
    ((List.range (L.before (t + 1) - L.before t)).map (· + L.before t)).filterMap fun s =>
      match L.death? s with
      | some d => some { pos := BitVec.ofNat 64 s, ttl := (d : Int) - (t : Int) }
      | none => none

/-- **the missing piece** (unproved; false for the unchanged `getPrevPos`): on the summaries
of a well-formed history `genTTLs` produces exactly the lifetimes -/
def genTTLs_exact_statement (gpp : PrevPosFn) : Prop :=
  ∀ (h : History) (blocks : List (List U64 × U16)),
    wellFormed h = true → (∀ b ∈ h, b.numAdds < 65536) → total h < 2^63 →
    summariesOf h = some blocks →
    ∃ tr cs, Tracker.ofBlocks blocks = .ok tr ∧ tr.genTTLsWith gpp = .ok cs ∧ cs.ttls = lifetimeTables h

-- ---------------------------------------------------------------- what is proved

section
variable (gpp : PrevPosFn) {blocks : List (List U64 × U16)} {tr cs : Tracker} {limit : Int}
  {sch : List (List U64)}

/-- **ttls are positive** and end inside the recorded blocks: what `GenerateCachingSchedule`'s
loop relies on besides `Distinct`.  Any tracker, any `getPrevPos`. -/
theorem ttls_positive (cs cs' : Tracker) (h : cs.genTTLsWith gpp = .ok cs') :
    (∀ l ∈ cs'.ttls, ∀ e ∈ l, 0 < e.ttl) ∧
    (∀ (j : Nat) (l : List TTLInfo), cs'.ttls[j]? = some l → ∀ e ∈ l, (j : Int) + e.ttl < cs.deletions.length) :=
  genTTLs_posTTL gpp cs cs' h

/-- **(b) ordering, no hypotheses**: whatever the summaries and the limit, every block's list
of a returned schedule is in ascending order. -/
theorem order_ascending (cs cs' : Tracker)
    (h : cs.generateCachingScheduleWith gpp limit = .ok (cs', sch)) :
    ∀ (i : Nat) (l : List U64), sch[i]? = some l → l.Pairwise (· ≤ ·) := by
  unfold Tracker.generateCachingScheduleWith at h
  cases hg : cs.genTTLsWith gpp with
  | ok cs1 =>
    rw [hg] at h
    simp only [bind, Out.bind] at h
    split at h
    · rename_i sch1 hs
      simp only [pure] at h
      cases h
      exact scheduleOfTTLs_sorted hs
    · cases h
    · cases h
    · cases h
  | err => rw [hg] at h; cases h
  | panic => rw [hg] at h; cases h
  | hang => rw [hg] at h; cases h

theorem strict_of_sorted_nodup : ∀ (l : List U64), l.Pairwise (· ≤ ·) → l.Nodup → l.Pairwise (· < ·) := by
  intro l
  induction l with
  | nil => intro _ _; exact List.Pairwise.nil
  | cons a l ih =>
    intro hs hn
    have hs' := List.pairwise_cons.mp hs
    have hn' := List.nodup_cons.mp hn
    refine List.pairwise_cons.mpr ⟨?_, ih hs'.2 hn'.2⟩
    intro b hb
    have hle := hs'.1 b hb
    have hne : a ≠ b := fun h => hn'.1 (h ▸ hb)
    exact BitVec.lt_of_le_ne hle hne

/-- **(b) ordering and uniqueness**: when the positions in the ttl tables are pairwise
distinct, every block's list is strictly ascending (ascending and duplicate-free). -/
theorem order_strict (hb : Tracker.ofBlocks blocks = .ok tr)
    (h : tr.generateCachingScheduleWith gpp limit = .ok (cs, sch)) (hd : Distinct cs.ttls) :
    sch.length = blocks.length ∧ ∀ (i : Nat) (l : List U64), sch[i]? = some l → l.Pairwise (· < ·) := by
  obtain ⟨hg, hlen, hm, hs⟩ := generate_decomp gpp hb h
  have hp : PosTTL cs.ttls := (genTTLs_posTTL gpp tr cs hg).1
  obtain ⟨sch', hrun, hl, hord, _, _⟩ := schedule_main hd hp hm
  rw [hs] at hrun
  cases hrun
  refine ⟨by rw [hl, hlen], ?_⟩
  intro i l hil
  exact strict_of_sorted_nodup l (hord i l hil).1 (hord i l hil).2

/-- **scheduled positions are table entries of that block** whose ttl ends inside the
recorded blocks. -/
theorem scheduled_is_entry (hb : Tracker.ofBlocks blocks = .ok tr)
    (h : tr.generateCachingScheduleWith gpp limit = .ok (cs, sch)) (hd : Distinct cs.ttls) :
    ∀ (i : Nat) (l : List U64) (p : U64), sch[i]? = some l → p ∈ l →
      ∃ e, Ent cs.ttls i e ∧ e.pos = p ∧ 0 < e.ttl ∧ (i : Int) + e.ttl < blocks.length := by
  obtain ⟨hg, hlen, hm, hs⟩ := generate_decomp gpp hb h
  have hp : PosTTL cs.ttls := (genTTLs_posTTL gpp tr cs hg).1
  obtain ⟨sch', hrun, _, _, hent, _⟩ := schedule_main hd hp hm
  rw [hs] at hrun
  cases hrun
  intro i l p hil hpl
  obtain ⟨e, he, h1, h2⟩ := hent i l p hil hpl
  exact ⟨e, he, h1, he.pos hp, by rw [← hlen]; exact h2⟩

/-- **(a) memory bound**: for every block `τ`, the scheduled entries that exist once block `τ`
has been applied — entry `(pos, ttl)` of block `i` with `pos` in the list of block `i` and
`i ≤ τ < i + ttl` — number at most `maxMemory`.  Follows from the invariant of the eviction
loop (every such entry sits in `cache` after block `τ`, and `len(cache) ≤ maxMemory`);
independent of what `genTTLs` computed, given `Distinct` (positivity of the ttls is proved). -/
theorem memory_bound (hb : Tracker.ofBlocks blocks = .ok tr)
    (h : tr.generateCachingScheduleWith gpp limit = .ok (cs, sch)) (hd : Distinct cs.ttls) (τ : Nat) :
    ((aliveScheduled cs.ttls sch τ).length : Int) ≤ limit := by
  obtain ⟨hg, _, hm, hs⟩ := generate_decomp gpp hb h
  have hp : PosTTL cs.ttls := (genTTLs_posTTL gpp tr cs hg).1
  exact Proofs.Schedule.memory_bound hd hp hm hs τ

/-- **(c), eviction-loop half — completeness with respect to the tables**: when the limit is
at least the number of table entries, every entry of every table is scheduled, in the list of
its own block. -/
theorem complete_wrt_tables (hb : Tracker.ofBlocks blocks = .ok tr)
    (h : tr.generateCachingScheduleWith gpp limit = .ok (cs, sch)) (hd : Distinct cs.ttls)
    (hbig : (cs.ttls.flatten.length : Int) ≤ limit) :
    ∀ (i : Nat) (e : TTLInfo), Ent cs.ttls i e → ∃ l, sch[i]? = some l ∧ e.pos ∈ l := by
  obtain ⟨hg, hlen, hm, hs⟩ := generate_decomp gpp hb h
  have hpp := genTTLs_posTTL gpp tr cs hg
  obtain ⟨sch', hrun, _, _, _, hcompl⟩ := schedule_main hd hpp.1 hm
  rw [hs] at hrun
  cases hrun
  intro i e he
  obtain ⟨l, hl, hel⟩ := he
  have hbound := hpp.2 i l hl e hel
  have hshape := genTTLs_shape gpp (ofBlocks_len hb) hg
  have hdl : tr.deletions.length = cs.ttls.length := by rw [(ofBlocks_len hb).1, hlen]
  exact hcompl hbig i e ⟨l, hl, hel⟩ (by rw [← hdl]; exact hbound)

/-- **(c), eviction-loop half, with the threshold of the property**: `genTTLs` records at most
one entry per recorded deletion target (`genTTLs_entries_le`), so a limit that is at least the
number of deletion targets recorded (which, for a real history, is at most the number of leaves
ever added) makes the schedule contain every table entry. -/
theorem complete_of_limit_ge_targets (hb : Tracker.ofBlocks blocks = .ok tr)
    (h : tr.generateCachingScheduleWith gpp limit = .ok (cs, sch)) (hd : Distinct cs.ttls)
    (hbig : (((blocks.map (·.1.length)).sum : Nat) : Int) ≤ limit) :
    ∀ (i : Nat) (e : TTLInfo), Ent cs.ttls i e → ∃ l, sch[i]? = some l ∧ e.pos ∈ l := by
  obtain ⟨hg, _, _, _⟩ := generate_decomp gpp hb h
  have h1 := genTTLs_entries_le gpp tr cs hg
  rw [ofBlocks_dels hb] at h1
  exact complete_wrt_tables gpp hb h hd (by omega)

/-- **no panic in the eviction loop**: once `genTTLs` has returned tables with distinct
positions and the limit is non-negative, `GenerateCachingSchedule` returns a schedule. -/
theorem generate_total (hb : Tracker.ofBlocks blocks = .ok tr) (hg : tr.genTTLsWith gpp = .ok cs)
    (hd : Distinct cs.ttls) (hm : 0 ≤ limit) :
    ∃ sch, tr.generateCachingScheduleWith gpp limit = .ok (cs, sch) := by
  have hp : PosTTL cs.ttls := (genTTLs_posTTL gpp tr cs hg).1
  obtain ⟨sch', hrun, _⟩ := schedule_main hd hp hm
  have hshape := genTTLs_shape gpp (ofBlocks_len hb) hg
  have hlen : cs.numAdds.length = cs.ttls.length := by
    rw [hshape.1, hshape.2.2]; exact (ofBlocks_len hb).2.1
  refine ⟨sch', ?_⟩
  unfold Tracker.generateCachingScheduleWith
  simp only [hg, bind, Out.bind, hlen, hrun, pure]

end

/-- everything proved about a run, in one statement (the `_partial` theorem of C15): for any
sequence of block summaries, any `getPrevPos` variant and any limit, if
`GenerateCachingSchedule` returns and the positions in its ttl tables are pairwise distinct,
then the schedule has one strictly ascending list per block, names only entries of that
block's table (whose positive ttl ends inside the recorded blocks), never keeps more than
`limit` of them alive at once, and contains every table entry when `limit` is at least their
number.  Missing for the full `C15_statement`: `genTTLs_exact_statement` (the tables are the
leaves' lifetimes), which also implies `Distinct`. -/
theorem C15_partial (gpp : PrevPosFn) (blocks : List (List U64 × U16)) (tr cs : Tracker) (limit : Int)
    (sch : List (List U64)) (hb : Tracker.ofBlocks blocks = .ok tr)
    (h : tr.generateCachingScheduleWith gpp limit = .ok (cs, sch)) (hd : Distinct cs.ttls) :
    sch.length = blocks.length ∧
    (∀ (i : Nat) (l : List U64), sch[i]? = some l → l.Pairwise (· < ·)) ∧
    (∀ (i : Nat) (l : List U64) (p : U64), sch[i]? = some l → p ∈ l →
      ∃ e, Ent cs.ttls i e ∧ e.pos = p ∧ 0 < e.ttl ∧ (i : Int) + e.ttl < blocks.length) ∧
    (∀ τ : Nat, ((aliveScheduled cs.ttls sch τ).length : Int) ≤ limit) ∧
    ((cs.ttls.flatten.length : Int) ≤ limit →
      ∀ (i : Nat) (e : TTLInfo), Ent cs.ttls i e → ∃ l, sch[i]? = some l ∧ e.pos ∈ l) :=
  ⟨(order_strict gpp hb h hd).1, (order_strict gpp hb h hd).2, scheduled_is_entry gpp hb h hd,
   memory_bound gpp hb h hd, complete_wrt_tables gpp hb h hd⟩

-- ---------------------------------------------------------------- non-vacuity

/-- `TestCachingSchedule` "Basic case with maxMemory of 2": creates(0,1) | creates(2,3), dels(0)
| creates(4,5), dels(1) | creates(6,7), dels(2,3) -/
def exBlocks : List (List U64 × U16) :=
  [([], 2#16), ([0#64], 2#16), ([4#64], 2#16), ([8#64, 9#64], 2#16)]

def exTables : List (List TTLInfo) := [[⟨0#64, 1⟩, ⟨1#64, 2⟩], [⟨2#64, 2⟩, ⟨3#64, 2⟩], [], []]

/-- the hypotheses of the theorems are satisfiable: on this history the model returns the
tables and the schedule the Go test expects, and the table positions are distinct -/
example : (do
    let tr ← Tracker.ofBlocks exBlocks
    let r ← tr.generateCachingSchedule 2
    pure (r.1.ttls, r.2)) = Out.ok (exTables, [[0#64, 1#64], [2#64], [], []]) := by decide +kernel

example : Distinct exTables := by unfold Distinct; decide

/-- `Distinct` cannot be dropped from `order_strict`: with a repeated position in the tables the
position-keyed `createHeights` map loses the second entry's block and the eviction loop lists
the position twice -/
example : scheduleOfTTLs [[⟨5#64, 1⟩, ⟨5#64, 1⟩], []] 2 2 = Out.ok [[5#64, 5#64], []] := by decide +kernel

-- ---------------------------------------------------------------- the unchanged code violates C15

/-- witness history: block 0 adds leaf 0; block 1 deletes leaf 0 (target 0) and adds leaf 1,
which overwrites the emptied root and therefore sits at position 2; block 2 deletes leaf 1
(target 2) -/
def witness : History := [⟨1, []⟩, ⟨1, [0]⟩, ⟨0, [1]⟩]

def witnessBlocks : List (List U64 × U16) := [([], 1#16), ([0#64], 1#16), ([2#64], 0#16)]

theorem witness_summaries : summariesOf witness = some witnessBlocks := by decide +kernel

/-- the model of the unchanged code schedules position 3 for block 1, whose only slot is 1 -/
theorem witness_run : (do
    let tr ← Tracker.ofBlocks witnessBlocks
    let r ← tr.generateCachingSchedule 2
    pure (r.1.ttls, r.2)) = Out.ok ([[⟨0#64, 1⟩], [⟨3#64, 1⟩], []], [[0#64], [3#64], []]) := by decide +kernel

/-- with the repair the same history yields the right schedule -/
theorem witness_run_fixed : (do
    let tr ← Tracker.ofBlocks witnessBlocks
    let r ← tr.generateCachingScheduleFixed 2
    pure (r.1.ttls, r.2)) = Out.ok ([[⟨0#64, 1⟩], [⟨1#64, 1⟩], []], [[0#64], [1#64], []]) := by decide +kernel

/-- on the witness the repaired model produces exactly the lifetime tables
(`genTTLs_exact_statement` instantiated) -/
example : lifetimeTables witness = [[⟨0#64, 1⟩], [⟨1#64, 1⟩], []] := by decide +kernel

/-- **The unchanged `getPrevPos` violates C15** (finding C15.createdMovedByUndoDel): on the
witness history `GenerateCachingSchedule(2)` schedules position 3 for block 1, which is not
the insertion slot of a leaf added in that block (its only slot is 1), and leaf 1 — added and
later deleted — is missing although the limit covers every leaf. -/
theorem C15_fails_createdMovedByUndoDel : ¬ C15_statement getPrevPos := by
  intro H
  obtain ⟨tr, cs, sch, h1, h2, _, hslot, _, _⟩ :=
    H witness 2 witnessBlocks (by decide +kernel) (by decide) (by decide) (by decide) witness_summaries
  have hrun := witness_run
  rw [h1] at hrun
  change (do let r ← tr.generateCachingScheduleWith getPrevPos 2; pure (r.1.ttls, r.2)) = _ at hrun
  have h2' : tr.generateCachingScheduleWith getPrevPos 2 = Out.ok (cs, sch) := h2
  rw [h2'] at hrun
  simp only [bind, Out.bind, pure] at hrun
  have hsch : sch = [[0#64], [3#64], []] := by
    have := Out.ok.inj hrun
    exact (Prod.mk.inj this).2
  subst hsch
  revert hslot
  decide +kernel

end UtreexoVerif.Props.C15
