/-
  C15 (continued) — `genTTLs` is exact, hence the caching schedule names real leaves and is
  complete.

  "For any recorded sequence of block summaries, every position scheduled for a block is the
   insertion slot of a leaf added in that block and deleted in a later recorded block, listed
   once and in ascending order.  At no block do more than the requested number of scheduled
   leaves exist simultaneously, and when the limit is at least the number of leaves ever alive
   the schedule contains every such leaf."

  `Props/C15.lean` proved the eviction loop (tables ↦ schedule) for every `getPrevPos` and left
  open that the ttl tables are the leaves' lifetimes.  Here, for `gpp = getPrevPosFixed` (the
  code of /repo as it is NOW: `undoAdd`, then `undoDel` with the positions created in the block
  saved and restored):

  * `undoAdd_inverse`, `undoDel_inverse`, `getPrevPos_inverse` — the INVERSE MOVEMENT: the
    63-row encoded position, after a block, of every live slot is mapped back to its encoded
    position before the block; the slots created by the block are reported (last created first)
    and keep their slot number;
  * `genTTLs_exact` — on the summaries of every well-formed history with at most `2^62` leaves the
    ttl tables are exactly `lifetimeTables h`;
  * `C15` — the full property (`C15_upto (2^62) getPrevPosFixed`): the returned schedule is accepted
    by the oracle of `Spec/Sched.lean` (order/uniqueness, slot correctness, memory bound,
    completeness).

  THE BOUND.  `Props/C15.lean` states `C15_statement` for `total h < 2^63`.  That statement is
  FALSE for the current code in the range `2^62 < total h < 2^63` (unreachable in practice:
  more than 6·10^18 leaves): `undoSingleAdd` evaluates `LeftChild(pos, 63)` also for the ROW-0
  position `pos = numLeaves - 1`; this is `2·pos mod 2^64`, which for `pos ≥ 2^62` is the 63-row
  position of a row-1 node and can be a destroyed empty root listed in `toDestroy`; the leaf is then
  "moved down" to a garbage position and not recognised as created in the block
  (`undoSingleAdd_large_witness`, `genTTLs_large_witness`: 6 148 914 691 236 517 205 leaves).
  For `total h ≤ 2^62` this cannot happen (`SchedUndoAdd.htd_of_tdok`).  Therefore the statements
  are kept in full with the bound as a parameter (`genTTLs_exact_upto`, `C15_upto`;
  `C15_statement gpp ↔ C15_upto (2^63 - 1) gpp`) and proved for the bound `2^62`.
-/
import UtreexoVerif.Proofs.SchedExact
import UtreexoVerif.Proofs.SchedOracle

namespace UtreexoVerif.Props.C15
open UtreexoVerif Model Spec.Sched
open UtreexoVerif.Proofs UtreexoVerif.Proofs.SchedSem UtreexoVerif.Proofs.CalcGeo

-- ---------------------------------------------------------------- statements, bound explicit

/-- `genTTLs_exact_statement` with the bound on the number of leaves as a parameter -/
def genTTLs_exact_upto (B : Nat) (gpp : PrevPosFn) : Prop :=
  ∀ (h : History) (blocks : List (List U64 × U16)),
    wellFormed h = true → (∀ b ∈ h, b.numAdds < 65536) → total h ≤ B →
    summariesOf h = some blocks →
    ∃ tr cs, Tracker.ofBlocks blocks = .ok tr ∧ tr.genTTLsWith gpp = .ok cs ∧ cs.ttls = lifetimeTables h

/-- `C15_statement` with the bound on the number of leaves as a parameter -/
def C15_upto (B : Nat) (gpp : PrevPosFn) : Prop :=
  ∀ (h : History) (limit : Nat) (blocks : List (List U64 × U16)),
    wellFormed h = true → (∀ b ∈ h, b.numAdds < 65536) → total h ≤ B → 1 ≤ limit →
    summariesOf h = some blocks →
    ∃ tr cs sch, Tracker.ofBlocks blocks = .ok tr ∧
      tr.generateCachingScheduleWith gpp (limit : Int) = .ok (cs, sch) ∧
      orderOK (sch.map (·.map (·.toNat))) = true ∧
      slotsOK h (sch.map (·.map (·.toNat))) = true ∧
      memOK h limit (sch.map (·.map (·.toNat))) = true ∧
      completeOK h limit (sch.map (·.map (·.toNat))) = true

theorem genTTLs_exact_statement_iff (gpp : PrevPosFn) :
    genTTLs_exact_statement gpp ↔ genTTLs_exact_upto (2 ^ 63 - 1) gpp := by
  constructor
  · intro H h blocks hw ha ht hs; exact H h blocks hw ha (by omega) hs
  · intro H h blocks hw ha ht hs; exact H h blocks hw ha (by omega) hs

theorem C15_statement_iff (gpp : PrevPosFn) : C15_statement gpp ↔ C15_upto (2 ^ 63 - 1) gpp := by
  constructor
  · intro H h limit blocks hw ha ht hl hs; exact H h limit blocks hw ha (by omega) hl hs
  · intro H h limit blocks hw ha ht hl hs; exact H h limit blocks hw ha (by omega) hl hs

theorem genTTLs_exact_upto_mono {B B' : Nat} (hB : B' ≤ B) {gpp : PrevPosFn}
    (H : genTTLs_exact_upto B gpp) : genTTLs_exact_upto B' gpp :=
  fun h blocks hw ha ht hs => H h blocks hw ha (by omega) hs

/-- **the bridge**: exact tables give the full property (any `getPrevPos`, any bound `< 2^64`) -/
theorem C15_of_exact {B : Nat} (hB : B < 2 ^ 64) {gpp : PrevPosFn} (H : genTTLs_exact_upto B gpp) :
    C15_upto B gpp := by
  intro h limit blocks hw ha ht hl hs
  obtain ⟨tr, cs, h1, h2, h3⟩ := H h blocks hw ha ht hs
  obtain ⟨sch, h4, h5, h6, h7, h8⟩ :=
    SchedOracle.oracle_of_tables gpp h limit blocks tr cs hw (by omega) hl hs h1 h2 h3
  exact ⟨tr, cs, sch, h1, h4, h5, h6, h7, h8⟩

-- ---------------------------------------------------------------- 1. inverse movement

/-- **`undoAdd` inverts the additions.**  `S` = slot list after the block's deletions, `K` additions,
`td` = the (63-row positions of the) empty roots the additions merge over, in any order.  For every
duplicate-free list `P` of slots that are live after the additions, `undoAdd` maps their encoded
positions to the encoded positions before the additions; a slot created by the additions gets its
leaf position `(0, s)` (= its slot number) and its index in `P` is reported, last created first. -/
theorem undoAdd_inverse {S : List (Option Nat)} {K : Nat} {P : List Nat} (hP : P.Nodup)
    (hlive : ∀ s ∈ P, Live (S ++ fresh S.length K) s) (hK : S.length + K ≤ 2 ^ 62) (hK16 : K < 65536)
    {td : List U64} (htd : TdOK S K td) :
    undoAdd CSTTotalRows (P.map fun s => E 63 (posS (S ++ fresh S.length K) s)) td (BitVec.ofNat 16 K)
        (BitVec.ofNat 64 (S.length + K)) =
      (P.map (fun s => if s < S.length then E 63 (posS S s) else BitVec.ofNat 64 s),
       SchedUndoAdd.createdOf S.length P K) := by
  have hlt : ∀ s ∈ P, s < S.length + K := by
    intro s hs
    have := SchedPos.live_lt (hlive s hs)
    simpa [SchedUndoAdd.fresh_length] using this
  have hTrk : SchedUndoAdd.Trk S K P := ⟨hP, fun s hs => ⟨hlt s hs, fun h => by
    have := hlive s hs
    unfold Live at this ⊢
    rwa [List.getElem?_append_left h] at this⟩⟩
  have h1 : (P.map fun s => E 63 (posS (S ++ fresh S.length K) s)) = P.map (SchedUndoAdd.cur S K) := by
    apply List.map_congr_left
    intro s hs
    unfold SchedUndoAdd.cur SchedUndoAdd.stage
    rw [if_pos (hlt s hs)]
  have h2 : P.map (SchedUndoAdd.cur S 0) =
      P.map (fun s => if s < S.length then E 63 (posS S s) else BitVec.ofNat 64 s) := by
    apply List.map_congr_left
    intro s _
    unfold SchedUndoAdd.cur
    rw [Nat.add_zero, SchedUndoAdd.stage_zero]
    split
    · rfl
    · exact SchedAddU.E63_leaf
  rw [h1, SchedAddU.cst_eq, SchedUndoAdd.undoAdd_spec hTrk hK hK16 htd, h2]

/-- **`undoDel` inverts the deletion movement** (`movePos` of `Proofs/Movement.lean`, in 63-row
coordinates).  `S` = slot list before the block, `D` the deleted live slots; the deletion targets are
the encoded positions of the deleted slots.  Every slot that survives is mapped from its encoded
position after the deletion to its encoded position before. -/
theorem undoDel_inverse {S : List (Option Nat)} (hc : Canon S) (hn : S.length ≤ 2 ^ 62) {D : List Nat}
    (hD : D.Nodup) (hlive : ∀ x ∈ D, Live S x) (P : List Nat) (hP : ∀ s ∈ P, Live S s ∧ s ∉ D) :
    undoDel CSTTotalRows (P.map fun s => E 63 (posS (kill S D) s)) (D.map fun x => E 63 (posS S x))
        (BitVec.ofNat 64 S.length) =
      P.map fun s => E 63 (posS S s) := by
  rw [SchedAddU.cst_eq, SchedGpp.undoDel_map, List.map_map]
  apply List.map_congr_left
  intro s hs
  exact SchedDel.undoDel_pos hc hn hD hlive (hP s hs).1 (hP s hs).2

/-- **`getPrevPos` (as it is now in /repo) inverts a block**: `S'` = slot list before the block,
`D` the slots it deletes, `K` additions. -/
theorem getPrevPos_inverse {S' : List (Option Nat)} (hc : Canon S') {D : List Nat} (hD : D.Nodup)
    (hlive : ∀ x ∈ D, Live S' x) {K : Nat} (hK16 : K < 65536) (hn : S'.length + K ≤ 2 ^ 62)
    {P : List Nat} (hP : P.Nodup) (hPl : ∀ s ∈ P, Live (kill S' D ++ fresh S'.length K) s)
    {td : List U64} (htd : TdOK (kill S' D) K td) :
    getPrevPosFixed CSTTotalRows (P.map fun s => E 63 (posS (kill S' D ++ fresh S'.length K) s))
        (D.map fun x => E 63 (posS S' x)) td (BitVec.ofNat 16 K) (BitVec.ofNat 64 (S'.length + K)) =
      (P.map (fun s => if s < S'.length then E 63 (posS S' s) else BitVec.ofNat 64 s),
       SchedUndoAdd.createdOf S'.length P K) :=
  SchedGpp.gpp_fixed_spec hc hD hlive hK16 hn hP hPl htd

-- ---------------------------------------------------------------- 2. and 3. the theorems

/-- **`genTTLs` is exact** for the code of /repo as it is now: on the summaries of every
well-formed history (any deletions of live leaves, 0..65535 additions per block) with at most `2^62`
leaves, the tracker accepts the summaries, `genTTLs` returns, and the ttl table of every block lists
exactly the leaves added in it that die in a later recorded block, in ascending order, with their
insertion slot as position and the right ttl. -/
theorem genTTLs_exact : genTTLs_exact_upto (2 ^ 62) getPrevPosFixed :=
  fun _ _ hw ha ht hs => SchedExact.genTTLs_exact hw ha ht hs

/-- **C15**, full strength, for the code of /repo as it is now, up to `2^62` leaves: for every
well-formed block history and every limit `≥ 1`, `GenerateCachingSchedule(limit)` returns a schedule
that the oracle written from the property text accepts (each block's list strictly ascending; every
scheduled position the insertion slot of a leaf added in that block and deleted in a later block; at
no block more than `limit` scheduled leaves alive; every such leaf scheduled when `limit` is at least
the number of leaves ever added). -/
theorem C15 : C15_upto (2 ^ 62) getPrevPosFixed :=
  C15_of_exact (by decide) genTTLs_exact

-- ---------------------------------------------------------------- non-vacuity

/-- the hypotheses are satisfiable on a history in which a block empties a tree that its own
additions overwrite (`witness` of `Props/C15.lean`: block 1 deletes leaf 0 — the only tree — and
adds leaf 1 over the emptied root; block 2 deletes leaf 1) -/
example : ∃ tr cs sch, Tracker.ofBlocks witnessBlocks = .ok tr ∧
    tr.generateCachingScheduleWith getPrevPosFixed (2 : Nat) = .ok (cs, sch) ∧
    orderOK (sch.map (·.map (·.toNat))) = true ∧ slotsOK witness (sch.map (·.map (·.toNat))) = true ∧
    memOK witness 2 (sch.map (·.map (·.toNat))) = true ∧
    completeOK witness 2 (sch.map (·.map (·.toNat))) = true :=
  C15 witness 2 witnessBlocks (by decide +kernel) (by decide) (by decide) (by decide) witness_summaries

/-- a larger instance: 7 leaves; block 1 deletes the whole tree on row 1 (slots 4, 5) and slot 6 and
adds 3 leaves over the two emptied roots; blocks 2 and 3 delete old and new leaves -/
def witness2 : History := [⟨7, []⟩, ⟨3, [5, 4, 6]⟩, ⟨1, [7, 0, 9]⟩, ⟨0, [8, 10, 1]⟩]

theorem witness2_wf : wellFormed witness2 = true := by decide +kernel
theorem witness2_empties : emptiesTreeAndAdds witness2 = true := by decide +kernel

example : ∃ blocks tr cs, summariesOf witness2 = some blocks ∧ Tracker.ofBlocks blocks = .ok tr ∧
    tr.genTTLsWith getPrevPosFixed = .ok cs ∧ cs.ttls = lifetimeTables witness2 := by
  obtain ⟨blocks, hb⟩ : ∃ blocks, summariesOf witness2 = some blocks :=
    ⟨_, SchedDelRoots.summaries_some witness2_wf (by decide)⟩
  obtain ⟨tr, cs, h1, h2, h3⟩ := genTTLs_exact witness2 blocks witness2_wf (by decide) (by decide) hb
  exact ⟨blocks, tr, cs, hb, h1, h2, h3⟩

/-- the tables of `witness2` (what `genTTLs` returns on it, by `genTTLs_exact`) -/
example : lifetimeTables witness2 =
    [[⟨0#64, 2⟩, ⟨1#64, 3⟩, ⟨4#64, 1⟩, ⟨5#64, 1⟩, ⟨6#64, 1⟩], [⟨7#64, 1⟩, ⟨8#64, 2⟩, ⟨9#64, 1⟩], [⟨10#64, 1⟩], []] := by
  decide +kernel

-- ---------------------------------------------------------------- the bound is needed

/-- **Beyond `2^62` leaves `undoSingleAdd` can lose a created leaf** (finding
C15.leftChildOfLeaf).  `numLeaves = m = 0x5555555555555555`; the leaf `m - 1` is a tree of its own.
If `toDestroy` still holds `0xAAAAAAAAAAAAAAA8` = the 63-row position of node `(1, (m-5)/2)`, the root
on row 1 of a forest with `m - 3` leaves (slots `m-5`, `m-4`), which equals `LeftChild(m - 1, 63) =
2·(m-1) mod 2^64`, the leaf is moved to a garbage position and index `-1` is returned although the
leaf is in `positions`; with an empty `toDestroy` the answer is right. -/
theorem undoSingleAdd_large_witness :
    undoSingleAdd CSTTotalRows [0x5555555555555554#64] [0xAAAAAAAAAAAAAAA8#64] 0x5555555555555555#64 =
      ([0xAAAAAAAAAAAAAAAC#64], [], -1) ∧
    undoSingleAdd CSTTotalRows [0x5555555555555554#64] [] 0x5555555555555555#64 =
      ([0x5555555555555554#64], [], 0) := by
  decide +kernel


/-- a tracker state for a forest with `m - 3` leaves, all alive (one recorded pseudo-block that
neither deletes nor adds): the state the tracker is in after the summaries of any history that
has produced `m - 3` live leaves without empty roots -/
def bigTracker (m : Nat) : Tracker :=
  { deletions := [[]], numAdds := [0#16], numLeaves := [BitVec.ofNat 64 (m - 3)], toDestroy := [[]],
    roots := [(Spec.treeRows (m - 3)).map fun h =>
      ⟨rootPosition (BitVec.ofNat 64 (m - 3)) (BitVec.ofNat 8 h) CSTTotalRows, false⟩] }

/-- block A deletes the two leaves `m-5`, `m-4` (a whole tree on row 1) and adds three leaves; block B
deletes the last added leaf `m-1`; returns the recorded `toDestroy` and the ttl tables -/
def bigRun (m : Nat) : Out (List (List U64) × List (List TTLInfo)) := do
  let t1 ← (bigTracker m).addBlockSummary [BitVec.ofNat 64 (m - 5), BitVec.ofNat 64 (m - 4)] 3#16
  let t2 ← t1.addBlockSummary [BitVec.ofNat 64 (m - 1)] 0#16
  let cs ← t2.genTTLsFixed
  pure (t2.toDestroy, cs.ttls)

/-- with `m = 0x1555555555555555 < 2^61` leaves the leaf `m - 1` (added by block A, deleted by
block B) is in the table of block A with ttl 1 … -/
theorem genTTLs_big_ok : bigRun 0x1555555555555555 =
    Out.ok ([[], [0x8AAAAAAAAAAAAAA8#64], []], [[], [⟨0x1555555555555554#64, 1⟩], []]) := by
  decide +kernel

/-- … **with `m = 0x5555555555555555` (between `2^62` and `2^63`) it is missing**: the table of
block A is empty, so the schedule cannot contain the leaf whatever the limit (`completeOK` fails);
finding C15.leftChildOfLeaf at the level of the tracker. -/
theorem genTTLs_large_witness : bigRun 0x5555555555555555 =
    Out.ok ([[], [0xAAAAAAAAAAAAAAA8#64], []], [[], [], []]) := by
  decide +kernel

end UtreexoVerif.Props.C15
