/-
  C01 — all implementations agree on the roots, for every history.

  This file: the specification-level part (S) and the `Stump.add` refinement (M.Stump).

  * `run_slots`, `batching_independent` — the forest after a history depends only on the
    ordered list of all additions and the set of all deletions;
  * `numLeaves_run`, `roots_length_popcount`, `roots_length_onesCount64`;
  * the collapse clauses (`subtree_without_survivors`, `sibling_without_survivors_left/right`,
    `both_halves_survive`, `root_zero_iff_no_survivors`);
  * `stump_add_refines` — `Stump.add` (transliteration of stump.go `add`) returns exactly
    the roots / leaf count of the specification forest after `addMany`, and never
    errs/panics/hangs, for all forests below `2^64` leaves.

  * `stump_update_no_dels_refines` — a whole `Stump.Update` block without deletions.

  Not proved here (statement kept visible): the `Stump.del` half of the refinement
  (`stump_update_refines_statement`), which needs completeness of `calculateHashes`
  (shared with C02).  The update data of the additions is in Props/C11.lean.
-/
import UtreexoVerif.Proofs.StumpAdd
import UtreexoVerif.Spec.View

namespace UtreexoVerif.Props.C01
open UtreexoVerif Model Hasher Spec Spec.Forest Proofs.StumpAdd

section
variable {H : Type} [DecidableEq H] [Hasher H]

/-! ### A.1 histories and batching independence -/

/-- **The forest after a history is determined by the additions and the deletions alone.**
For a history from the empty accumulator whose added leaves are pairwise distinct (over the
whole history) and whose blocks delete only currently live leaves, slot `i` holds the `i`-th
added leaf if it was never deleted and is dead otherwise. -/
theorem run_slots (hist : List (Block H)) (hnd : (allAdds hist).Nodup)
    (hlive : LiveDels Forest.empty hist) :
    (run Forest.empty hist).slots = (allAdds hist).map (mark (allDels hist)) := by
  have := run_slots_gen hist [] [] Forest.empty rfl (by simp) (by simpa using hnd) hlive
  simpa using this

/-- **Batching independence**: two valid histories with the same concatenated additions and
the same set of deletions produce the same forest, hence the same roots and leaf count. -/
theorem batching_independent (h1 h2 : List (Block H))
    (hnd : (allAdds h1).Nodup) (hl1 : LiveDels Forest.empty h1) (hl2 : LiveDels Forest.empty h2)
    (hadds : allAdds h1 = allAdds h2) (hdels : ∀ x, x ∈ allDels h1 ↔ x ∈ allDels h2) :
    run Forest.empty h1 = run Forest.empty h2 ∧
    (run Forest.empty h1).roots = (run Forest.empty h2).roots ∧
    (run Forest.empty h1).numLeaves = (run Forest.empty h2).numLeaves := by
  have e : run Forest.empty h1 = run Forest.empty h2 := by
    have s1 := run_slots h1 hnd hl1
    have s2 := run_slots h2 (hadds ▸ hnd) hl2
    have : (run Forest.empty h1).slots = (run Forest.empty h2).slots := by
      rw [s1, s2, hadds]
      apply List.map_congr_left
      intro x _
      simp only [mark, hdels x]
    cases hf1 : run Forest.empty h1
    cases hf2 : run Forest.empty h2
    rw [hf1, hf2] at this
    simpa using this
  exact ⟨e, by rw [e], by rw [e]⟩

/-- the roots are the value determined only by the surviving leaves and their slots -/
theorem roots_run (hist : List (Block H)) (hnd : (allAdds hist).Nodup)
    (hlive : LiveDels Forest.empty hist) :
    (run Forest.empty hist).roots =
      (Forest.mk ((allAdds hist).map (mark (allDels hist)))).roots := by
  rw [← run_slots hist hnd hlive]

/-! ### A.2 leaf count and number of roots -/

/-- the leaf count is the total number of additions (no hypotheses needed) -/
theorem numLeaves_run (F : Forest H) (hist : List (Block H)) :
    (run F hist).numLeaves = F.numLeaves + (allAdds hist).length := by
  induction hist generalizing F with
  | nil => simp [run]
  | cons b rest ih =>
    rw [run, ih]
    simp [Forest.modify, Forest.addMany, Forest.delLeaves, Forest.numLeaves]
    omega

/-- one root per set binary digit of the leaf count -/
theorem roots_length_popcount (F : Forest H) :
    F.roots.length = (List.range 65).countP (fun j => F.numLeaves.testBit j) := by
  rw [roots_length, treeRows_length]

/-- … which below `2^64` leaves is Go's `bits.OnesCount64(numLeaves)` -/
theorem roots_length_onesCount64 (F : Forest H) (hn : F.numLeaves < 2 ^ 64) :
    (F.roots.length : Int) = GoInt.onesCount64 (BitVec.ofNat 64 F.numLeaves) := by
  rw [roots_length_popcount, GoInt.onesCount64, List.range_succ, List.countP_append]
  have h64 : F.numLeaves.testBit 64 = false := Nat.testBit_lt_two_pow hn
  simp only [List.countP_singleton, h64, Bool.false_eq_true, if_false, Nat.add_zero]
  congr 1
  apply List.countP_congr
  intro j hj
  rw [List.mem_range] at hj
  rw [Proofs.getLsbD_ofNat64 hj]

/-- the rows carrying a tree are exactly the set binary digits -/
theorem mem_treeRows_iff (n j : Nat) : j ∈ treeRows n ↔ j ≤ 64 ∧ n.testBit j = true :=
  mem_treeRows

/-! ### A.3 the collapse clauses -/

/-- a subtree without survivors contributes nothing — and only such a subtree -/
theorem subtree_without_survivors (k : Nat) (l : List (Option H)) :
    collapse k l = none ↔ ∀ h : H, some h ∉ l.take (2 ^ k) :=
  collapse_eq_none_iff k l

/-- a subtree whose (right) sibling has no survivors stands in for its parent -/
theorem sibling_without_survivors_right (k : Nat) (l : List (Option H))
    (hd : ∀ h : H, some h ∉ (l.drop (2 ^ k)).take (2 ^ k)) :
    collapse (k + 1) l = collapse k (l.take (2 ^ k)) :=
  collapse_succ_right_dead k l hd

/-- a subtree whose (left) sibling has no survivors stands in for its parent -/
theorem sibling_without_survivors_left (k : Nat) (l : List (Option H))
    (hd : ∀ h : H, some h ∉ l.take (2 ^ k)) :
    collapse (k + 1) l = collapse k (l.drop (2 ^ k)) :=
  collapse_succ_left_dead k l hd

/-- otherwise the root is the pairwise hash of the two halves -/
theorem both_halves_survive (k : Nat) (l : List (Option H)) (a b : CTree H)
    (ha : collapse k (l.take (2 ^ k)) = some a) (hb : collapse k (l.drop (2 ^ k)) = some b) :
    collapse (k + 1) l = some (.node a b) ∧ rootHash (collapse (k + 1) l) = ph a.hash b.hash := by
  have := collapse_succ_both k l a b ha hb
  exact ⟨this.1, by rw [this.1]; rfl⟩

/-- the live leaves of a collapsed chunk are the surviving slots, in slot order -/
theorem collapse_leaves (k : Nat) (l : List (Option H)) :
    optLeaves (collapse k l) = (l.take (2 ^ k)).filterMap id :=
  optLeaves_collapse k l

/-- a tree has the all-zero root iff it has no survivors (leaves non-zero, `ph` never zero) -/
theorem root_zero_iff_no_survivors (hph : ∀ a b : H, ph a b ≠ (zero : H)) (k : Nat)
    (l : List (Option H)) (hl : ∀ h : H, some h ∈ l → h ≠ (zero : H)) :
    rootHash (collapse k l) = zero ↔ ∀ h : H, some h ∉ l.take (2 ^ k) := by
  rw [← collapse_eq_none_iff]
  constructor
  · intro hz
    cases hc : collapse k l with
    | none => rfl
    | some t =>
      exfalso
      rw [hc] at hz
      refine CTree.hash_ne_zero hph t ?_ hz
      intro x hx
      apply hl
      apply mem_optLeaves_collapse (k := k)
      rw [hc]; exact hx
  · intro h; rw [h]; rfl

/-- every root of a forest is the `rootHash` of the collapse of its tree's slots -/
theorem roots_def (F : Forest H) :
    F.roots = (treeRows F.numLeaves).map fun h =>
      rootHash (collapse h ((F.slots.drop (treeStart F.numLeaves h)).take (2 ^ h))) := by
  rw [roots_eq, Forest.trees, List.map_map]
  rfl

/-! ### B. `Stump.add` refines the specification -/

/-- Full statement: for every specification forest `F` below `2^64` leaves (after the
additions) whose live leaves are non-zero, every stump holding `F`'s roots and leaf count,
and all non-zero leaves `adds`, Go's `Stump.add` returns normally and leaves exactly the
roots and leaf count of `F.addMany adds`.  (`ph` never returning the all-zero hash is the
`nonzero` half of collision-freeness `CR`; injectivity is not needed.) -/
def stump_add_refines_statement (H : Type) [DecidableEq H] [Hasher H] : Prop :=
  ∀ (nonZero : H) (F : Forest H) (s : Stump H) (adds : List H),
    (∀ a b : H, ph a b ≠ (zero : H)) →
    s.roots = F.roots → s.numLeaves = BitVec.ofNat 64 F.numLeaves →
    F.numLeaves + adds.length < 2 ^ 64 →
    (∀ y ∈ F.liveLeaves, y ≠ (zero : H)) → (∀ y ∈ adds, y ≠ (zero : H)) →
    ∃ upd td, s.add nonZero adds =
      .ok (⟨(F.addMany adds).roots, BitVec.ofNat 64 (F.numLeaves + adds.length)⟩, upd, td)

theorem stump_add_refines : stump_add_refines_statement H :=
  fun nonZero F s adds hph hr hn hlt hlive hadds =>
    add_refines nonZero F s adds hph hr hn hlt hlive hadds

/-- the same under the bundled hypothesis `NZ` (parent hashes are never the zero hash; the name
of the theorem is historical: it used to take the collision-freeness bundle `CR`) -/
theorem stump_add_refines_CR (nz : NZ H) (nonZero : H) (F : Forest H) (s : Stump H) (adds : List H)
    (hr : s.roots = F.roots) (hn : s.numLeaves = BitVec.ofNat 64 F.numLeaves)
    (hlt : F.numLeaves + adds.length < 2 ^ 64)
    (hlive : ∀ y ∈ F.liveLeaves, y ≠ (zero : H)) (hadds : ∀ y ∈ adds, y ≠ (zero : H)) :
    ∃ upd td, s.add nonZero adds =
      .ok (⟨(F.addMany adds).roots, BitVec.ofNat 64 (F.numLeaves + adds.length)⟩, upd, td) :=
  stump_add_refines nonZero F s adds nz.nonzero hr hn hlt hlive hadds

/-- one addition on the roots: with `t` trailing one digits in the leaf count, the last `t`
roots are merged from the right with the new leaf, skipping all-zero roots -/
theorem roots_add_one {t c : Nat} (F : Forest H) (x : H)
    (hn : F.numLeaves = 2 ^ (t + 1) * c + (2 ^ t - 1)) (ht : t ≤ 64)
    (hph : ∀ a b : H, ph a b ≠ (zero : H)) (hlive : ∀ y ∈ F.liveLeaves, y ≠ (zero : H)) :
    ∃ hi lo : List H, F.roots = hi ++ lo ∧ lo.length = t ∧
      (F.add x).roots = hi ++ [mergeHash lo x] :=
  roots_add F x hn ht hph hlive

/-! ### B'. whole blocks -/

/-- a block WITHOUT deletions: `Stump.Update` with empty targets and an empty proof accepts,
and the new stump is that of the specification forest after `modify [] adds` -/
theorem stump_update_no_dels_refines (nonZero : H) (F : Forest H) (s : Stump H) (adds : List H)
    (hph : ∀ a b : H, ph a b ≠ (zero : H))
    (hr : s.roots = F.roots) (hn : s.numLeaves = BitVec.ofNat 64 F.numLeaves)
    (hlt : F.numLeaves + adds.length < 2 ^ 64)
    (hlive : ∀ y ∈ F.liveLeaves, y ≠ (zero : H)) (hadds : ∀ y ∈ adds, y ≠ (zero : H)) :
    ∃ ud, s.update nonZero [] adds [] [] =
      .ok (⟨(F.modify [] adds).roots, BitVec.ofNat 64 (F.modify [] adds).numLeaves⟩, ud) ∧
      ud.prevNumLeaves = s.numLeaves ∧ ud.newDel = [] := by
  obtain ⟨upd, td, h⟩ := stump_add_refines nonZero F s adds hph hr hn hlt hlive hadds
  have hmod : F.modify [] adds = F.addMany adds := by
    unfold Forest.modify Forest.delLeaves
    congr 1
    cases F with
    | mk slots =>
      simp only [Forest.mk.injEq]
      conv => rhs; rw [← List.map_id slots]
      apply List.map_congr_left
      intro a _
      cases a <;> simp
  rw [update_no_dels, h, hmod, numLeaves_addMany]
  exact ⟨_, rfl, rfl, rfl⟩

/-- Statement (NOT proved here — needs completeness of `calculateHashes`, shared with C02): a
whole block.  For a stump holding the roots of `F`, live leaves `dels` (no repetition) with
their canonical proof, and non-zero additions, `Stump.Update` accepts and the new stump is
that of `F.modify dels adds`.  Checked by evaluation (not a proof) on all forests of at most 7
slots, every deletion subset in two orders and 0–3 additions: 26 240 cases, no failure. -/
def stump_update_refines_statement (H : Type) [DecidableEq H] [Hasher H] : Prop :=
  ∀ (nonZero : H) (F : Forest H) (s : Stump H) (dels adds : List H) (targets : List Pos)
    (proof : List H),
    NZ H → nonZero ≠ (zero : H) →
    s.roots = F.roots → s.numLeaves = BitVec.ofNat 64 F.numLeaves →
    F.numLeaves + adds.length ≤ 2 ^ 63 →
    F.liveLeaves.Nodup → (∀ x ∈ F.liveLeaves, x ≠ (zero : H) ∧ ∀ a b : H, x ≠ ph a b) →
    (∀ y ∈ adds, y ≠ (zero : H)) →
    dels.Nodup → (∀ x ∈ dels, x ∈ F.liveLeaves) →
    F.canon dels = some (targets, proof) →
    ∃ ud, s.update nonZero dels adds (targets.map fun p => BitVec.ofNat 64 (enc F.rows p)) proof =
      .ok (⟨(F.modify dels adds).roots, BitVec.ofNat 64 (F.modify dels adds).numLeaves⟩, ud)

end

/-! ### non-vacuity -/

namespace Example

/-- free term algebra hash (collision-free by construction) -/
inductive T where
  | z
  | leaf (n : Nat)
  | node (l r : T)
deriving DecidableEq, Repr

instance : Hasher T := ⟨T.node, T.z⟩

theorem cr : CR T :=
  ⟨fun _ _ _ _ h => by cases h; exact ⟨rfl, rfl⟩, fun _ _ h => by cases h⟩

/-- block 1 adds leaves 1,2,3; block 2 deletes 2 and adds 4,5; block 3 deletes 1,4 and adds 6 -/
def histA : List (Block T) :=
  [([], [.leaf 1, .leaf 2, .leaf 3]), ([.leaf 2], [.leaf 4, .leaf 5]), ([.leaf 1, .leaf 4], [.leaf 6])]

/-- the same operations batched differently: everything is added first, deletions later and
in another order -/
def histB : List (Block T) :=
  [([], [.leaf 1]), ([], [.leaf 2, .leaf 3, .leaf 4, .leaf 5, .leaf 6]), ([.leaf 4], []),
   ([.leaf 2, .leaf 1], [])]

theorem histA_nodup : (allAdds histA).Nodup := by decide
theorem histA_live : LiveDels Forest.empty histA := by
  simp [histA, LiveDels, Forest.liveLeaves, Forest.modify, Forest.delLeaves, Forest.addMany,
    Forest.empty]
theorem histB_live : LiveDels Forest.empty histB := by
  simp [histB, LiveDels, Forest.liveLeaves, Forest.modify, Forest.delLeaves, Forest.addMany,
    Forest.empty]

/-- `run_slots` on a concrete history -/
example : (run Forest.empty histA).slots =
    [none, none, some (.leaf 3), none, some (.leaf 5), some (.leaf 6)] := by
  rw [run_slots histA histA_nodup histA_live]; decide

/-- `batching_independent` applies to the two batchings -/
example : (run Forest.empty histA).roots = (run Forest.empty histB).roots :=
  (batching_independent histA histB histA_nodup histA_live histB_live (by decide)
    (by intro x; simp [histA, histB, allDels]; constructor <;> (intro h; rcases h with h | h | h <;> simp [h]))).2.1

/-- the roots of that forest: 6 leaves = trees on rows 2 and 1; in the first tree only
leaf 3 survives and stands in for the root, in the second both leaves survive -/
example : (run Forest.empty histA).roots = [.leaf 3, .node (.leaf 5) (.leaf 6)] := by
  decide +kernel

example : (run Forest.empty histA).numLeaves = 6 := by
  rw [numLeaves_run]; decide

/-- a tree without survivors has the all-zero root: delete both leaves of a 2-leaf forest -/
example : (run Forest.empty [([], [T.leaf 1, T.leaf 2]), ([T.leaf 1, T.leaf 2], [])]).roots = [T.z] := by
  decide +kernel

/-- `roots_length_popcount` instance -/
example : (run Forest.empty histA).roots.length = 2 := by
  rw [roots_length_popcount]; decide +kernel

/-- the forest after blocks 1 and 2 of `histA`: slots `[1, dead, 3, 4, 5]` -/
def F5 : Forest T := run Forest.empty (histA.take 2)

/-- hypotheses of `stump_add_refines` are satisfiable: a stump for `F5` (one tree with a dead
leaf, one single-leaf tree), adding three leaves so that the last addition merges all rows -/
example : ∃ upd td, (Stump.mk F5.roots 5#64).add (T.leaf 0) [.leaf 6, .leaf 7, .leaf 8] =
    .ok (⟨(F5.addMany [.leaf 6, .leaf 7, .leaf 8]).roots, BitVec.ofNat 64 (F5.numLeaves + 3)⟩, upd, td) :=
  stump_add_refines (T.leaf 0) F5 ⟨F5.roots, 5#64⟩ [.leaf 6, .leaf 7, .leaf 8] cr.nonzero rfl
    (by decide +kernel) (by decide +kernel)
    (by intro y hy
        have : y ∈ [T.leaf 1, T.leaf 3, T.leaf 4, T.leaf 5] := by
          have e : F5.liveLeaves = [T.leaf 1, T.leaf 3, T.leaf 4, T.leaf 5] := by decide +kernel
          rw [← e]; exact hy
        intro hz; subst hz; simp at this)
    (by intro y hy hz; subst hz; simp at hy)

/-- and the model indeed evaluates to the specification's roots on that instance -/
example : ((Stump.mk F5.roots 5#64).add (T.leaf 0) [.leaf 6, .leaf 7, .leaf 8]).toOption.map (·.1) =
    some ⟨[T.node (.node (.leaf 1) (.node (.leaf 3) (.leaf 4))) (.node (.node (.leaf 5) (.leaf 6)) (.node (.leaf 7) (.leaf 8)))], 8#64⟩ := by
  decide +kernel

/-- a whole `Update` block without deletions on that stump -/
example : ∃ ud, (Stump.mk F5.roots 5#64).update (T.leaf 0) [] [.leaf 6] [] [] =
    .ok (⟨(F5.modify [] [.leaf 6]).roots, BitVec.ofNat 64 (F5.modify [] [.leaf 6]).numLeaves⟩, ud) ∧
    ud.prevNumLeaves = 5#64 ∧ ud.newDel = [] :=
  stump_update_no_dels_refines (T.leaf 0) F5 ⟨F5.roots, 5#64⟩ [.leaf 6] cr.nonzero rfl
    (by decide +kernel) (by decide +kernel)
    (by intro y hy
        have : y ∈ [T.leaf 1, T.leaf 3, T.leaf 4, T.leaf 5] := by
          have e : F5.liveLeaves = [T.leaf 1, T.leaf 3, T.leaf 4, T.leaf 5] := by decide +kernel
          rw [← e]; exact hy
        intro hz; subst hz; simp at this)
    (by intro y hy hz; subst hz; simp at hy)

/-- adding over an empty (all-zero) root: the stump of a forest whose only tree died -/
example : ∃ upd td, (Stump.mk [T.z] 1#64).add (T.leaf 0) [.leaf 9] =
    .ok (⟨[T.leaf 9], 2#64⟩, upd, td) := by
  have := stump_add_refines (T.leaf 0) (Forest.mk [none]) ⟨[T.z], 1#64⟩ [.leaf 9] cr.nonzero
    (by decide +kernel) (by decide +kernel) (by decide +kernel)
    (by intro y hy; simp [Forest.liveLeaves] at hy)
    (by intro y hy hz; subst hz; simp at hy)
  have e : (Forest.addMany (Forest.mk [none]) [T.leaf 9]).roots = [T.leaf 9] := by decide +kernel
  rw [e] at this
  exact this

end Example

end UtreexoVerif.Props.C01
