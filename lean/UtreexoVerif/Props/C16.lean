/-
  C16 — position arithmetic of utils.go against the (row, offset) geometry.

  `encU h r o` (defined in `Proofs/Geometry.lean`) is the `uint64` position
  `BitVec.ofNat 64 (Spec.enc h (r, o))` of node `(row r, offset o)` in a forest allocated
  for `h` rows and `H8 h = BitVec.ofNat 8 h` is a row count as `uint8`.
  Standing hypotheses: `h ≤ 63`, `r ≤ h`, `o < 2^(h-r)`.
-/
import UtreexoVerif.Proofs.Geometry

namespace UtreexoVerif.Props.C16
open UtreexoVerif UtreexoVerif.GoInt UtreexoVerif.Proofs

/-! ### the encoding itself -/

theorem enc_lt {h r o : Nat} (hr : r ≤ h) (ho : o < 2 ^ (h - r)) :
    Spec.enc h (r, o) < 2 ^ (h + 1) - 1 :=
  enc_lt_aux hr ho

/-- for `h ≤ 63` positions fit in a `uint64` (and `encU` loses nothing) -/
theorem encU_toNat {h r o : Nat} (hh : h ≤ 63) (hr : r ≤ h) (ho : o < 2 ^ (h - r)) :
    (encU h r o).toNat = Spec.enc h (r, o) :=
  toNat_encU hh hr ho

/-- rows are ordered: every position of a lower row is below every position of a higher row -/
theorem enc_row_lt {h r o r' o' : Nat} (hr' : r' ≤ h) (ho : o < 2 ^ (h - r)) (hlt : r < r') :
    Spec.enc h (r, o) < Spec.enc h (r', o') :=
  Proofs.enc_row_lt hr' ho hlt

theorem enc_injective {h r o r' o' : Nat} (hr : r ≤ h) (ho : o < 2 ^ (h - r))
    (hr' : r' ≤ h) (ho' : o' < 2 ^ (h - r'))
    (e : Spec.enc h (r, o) = Spec.enc h (r', o')) : r = r' ∧ o = o' := by
  have hrr : r = r' := by
    rcases Nat.lt_trichotomy r r' with hlt | heq | hgt
    · have := Proofs.enc_row_lt (o' := o') hr' ho hlt; omega
    · exact heq
    · have := Proofs.enc_row_lt (o' := o) hr ho' hgt; omega
  subst hrr
  refine ⟨rfl, ?_⟩
  have f := enc_facts hr
  rw [enc_val, enc_val] at e
  omega

example : Spec.enc 3 (1, 1) = 9 := by decide
example : Spec.enc 3 (3, 0) = 14 := by decide
example : encU 3 1 1 = 9#64 := by decide
example : encU 63 63 0 = BitVec.ofNat 64 (2 ^ 64 - 2) := by decide

/-! ### parent / children -/

theorem parent_enc {h r o : Nat} (hh : h ≤ 63) (hr : r < h) (ho : o < 2 ^ (h - r)) :
    Model.Parent (encU h r o) (H8 h) = encU h (r + 1) (o / 2) := by
  apply BitVec.eq_of_toNat_eq
  have ho' : o / 2 < 2 ^ (h - (r + 1)) := by have := enc_facts_succ hr; omega
  unfold Model.Parent
  rw [BitVec.toNat_or, toNat_shr, toNat_H8 hh, toNat_one_shl hh,
    toNat_encU hh (by omega) ho, toNat_encU hh (by omega) ho', parent_nat hr ho]

theorem leftChild_enc {h r o : Nat} (hh : h ≤ 63) (hr : r < h) (ho : o < 2 ^ (h - (r + 1))) :
    Model.LeftChild (encU h (r + 1) o) (H8 h) = encU h r (2 * o) := by
  apply BitVec.eq_of_toNat_eq
  have ho' : 2 * o < 2 ^ (h - r) := by have := enc_facts_succ hr; omega
  show (shl (encU h (r + 1) o) 1 &&& (shl 2#64 (H8 h).toNat - 1#64)).toNat = _
  rw [toNat_H8 hh, toNat_shl_and_mask hh, toNat_encU hh (by omega) ho,
    toNat_encU hh (by omega) ho', leftChild_nat hr ho]

theorem rightChild_enc {h r o : Nat} (hh : h ≤ 63) (hr : r < h) (ho : o < 2 ^ (h - (r + 1))) :
    Model.RightChild (encU h (r + 1) o) (H8 h) = encU h r (2 * o + 1) := by
  apply BitVec.eq_of_toNat_eq
  have ho' : 2 * o + 1 < 2 ^ (h - r) := by have := enc_facts_succ hr; omega
  show ((shl (encU h (r + 1) o) 1 &&& (shl 2#64 (H8 h).toNat - 1#64)) ||| 1#64).toNat = _
  rw [BitVec.toNat_or, toNat_H8 hh, toNat_shl_and_mask hh, toNat_encU hh (by omega) ho,
    toNat_encU hh (by omega) ho', leftChild_nat hr ho, BitVec.toNat_one (by decide),
    nat_or_one, enc_even (by omega), enc_add h r (2 * o), enc_add h r (2 * o + 1)]
  omega

example : Model.Parent 9#64 3#8 = 12#64 := by decide
example : Model.Parent (encU 3 1 1) (H8 3) = encU 3 2 0 :=
  parent_enc (by decide) (by decide) (by decide)
example : Model.LeftChild 12#64 3#8 = 8#64 ∧ Model.RightChild 12#64 3#8 = 9#64 := by decide
example : Model.LeftChild (encU 3 2 0) (H8 3) = encU 3 1 0 :=
  leftChild_enc (by decide) (by decide) (by decide)
example : Model.RightChild (encU 63 63 0) (H8 63) = encU 63 62 1 :=
  rightChild_enc (by decide) (by decide) (by decide)

/-! ### row detection -/

theorem detectRow_enc {h r o : Nat} (hh : h ≤ 63) (hr : r ≤ h) (ho : o < 2 ^ (h - r)) :
    Model.DetectRow (encU h r o) (H8 h) = BitVec.ofNat 8 r := by
  have key := detectRow_loop hh hr ho r 0 300 (by omega) (by omega)
  rw [Nat.sub_zero] at key
  unfold Model.DetectRow
  simp only [toNat_H8 hh, one_shl_eq_twoPow]
  rw [key]

example : Model.DetectRow 9#64 3#8 = 1#8 := by decide
example : Model.DetectRow (encU 3 1 1) (H8 3) = BitVec.ofNat 8 1 :=
  detectRow_enc (by decide) (by decide) (by decide)

/-! ### siblings -/

theorem sibling_enc {h r o : Nat} (hh : h ≤ 63) (hr : r ≤ h) (ho : o < 2 ^ (h - r)) :
    Model.sibling (encU h r o) = encU h r (o ^^^ 1) := by
  apply BitVec.eq_of_toNat_eq
  have hlt := enc_lt_aux hr ho
  have h64 : 2 ^ (h + 1) ≤ 2 ^ 64 := two_pow_le_64 (by omega)
  have e : Spec.enc h (r, o) ^^^ 1 = Spec.enc h (r, o ^^^ 1) := by
    have ev := enc_even (o := o) hr
    rw [nat_xor_one, nat_xor_one o, enc_add h r o, enc_add h r (if o % 2 = 0 then o + 1 else o - 1)]
    rw [enc_add h r o] at ev
    split <;> split <;> omega
  have hlt' : Spec.enc h (r, o ^^^ 1) < 2 ^ 64 := by
    rw [← e, nat_xor_one]; split <;> omega
  unfold Model.sibling
  rw [BitVec.toNat_xor, toNat_encU hh hr ho, BitVec.toNat_one (by decide), e, encU,
    toNat_ofNat64_of_lt hlt']

/-- the same, phrased with the specification's `sib` -/
theorem sibling_enc_sib {h r o : Nat} (hh : h ≤ 63) (hr : r ≤ h) (ho : o < 2 ^ (h - r)) :
    Model.sibling (encU h r o) = BitVec.ofNat 64 (Spec.enc h (Spec.sib (r, o))) := by
  rw [sibling_enc hh hr ho, encU, nat_xor_one]
  rfl

theorem leftSib_enc {h r o : Nat} (hh : h ≤ 63) (hr : r ≤ h) (ho : o < 2 ^ (h - r)) :
    Model.leftSib (encU h r o) = encU h r (2 * (o / 2)) := by
  apply BitVec.eq_of_toNat_eq
  have hlt := enc_lt_64 hh hr ho
  unfold Model.leftSib
  rw [BitVec.toNat_and, BitVec.toNat_not, BitVec.toNat_one (by decide),
    toNat_encU hh hr ho, toNat_encU hh hr (by omega), nat_and_not_one _ hlt, enc_even hr,
    enc_add h r o, enc_add h r (2 * (o / 2))]
  omega

theorem rightSib_enc {h r o : Nat} (hh : h ≤ 63) (hr : r ≤ h) (ho : o < 2 ^ (h - r)) :
    Model.rightSib (encU h r o) = encU h r (2 * (o / 2) + 1) := by
  apply BitVec.eq_of_toNat_eq
  have hlt := enc_lt_aux hr ho
  have h64 : 2 ^ (h + 1) ≤ 2 ^ 64 := two_pow_le_64 (by omega)
  have ev := enc_even (o := o) hr
  have e : Spec.enc h (r, o) ||| 1 = Spec.enc h (r, 2 * (o / 2) + 1) := by
    rw [nat_or_one, ev, enc_add h r o, enc_add h r (2 * (o / 2) + 1)]
    omega
  have hlt' : Spec.enc h (r, 2 * (o / 2) + 1) < 2 ^ 64 := by
    rw [← e, nat_or_one]; omega
  unfold Model.rightSib
  rw [BitVec.toNat_or, toNat_encU hh hr ho, BitVec.toNat_one (by decide), e, encU,
    toNat_ofNat64_of_lt hlt']

theorem isLeftNiece_enc {h r o : Nat} (hh : h ≤ 63) (hr : r ≤ h) (ho : o < 2 ^ (h - r)) :
    Model.isLeftNiece (encU h r o) = decide (o % 2 = 0) := by
  have hn : (encU h r o &&& 1#64).toNat = o % 2 := by
    rw [BitVec.toNat_and, BitVec.toNat_one (by decide), Nat.and_one_is_mod,
      toNat_encU hh hr ho, enc_even hr]
  unfold Model.isLeftNiece
  by_cases ho2 : o % 2 = 0
  · have : encU h r o &&& 1#64 = 0#64 := by
      apply BitVec.eq_of_toNat_eq; rw [hn, ho2]; rfl
    simp [this, ho2]
  · have : encU h r o &&& 1#64 ≠ 0#64 := by
      intro hc
      have := congrArg BitVec.toNat hc
      rw [hn] at this
      exact ho2 this
    simp [this, ho2]

example : Model.sibling 9#64 = 8#64 ∧ Model.leftSib 9#64 = 8#64 ∧ Model.rightSib 8#64 = 9#64 := by
  decide
example : Model.sibling (encU 3 1 1) = encU 3 1 0 :=
  sibling_enc (by decide) (by decide) (by decide)
example : Model.isLeftNiece (encU 3 1 1) = false :=
  isLeftNiece_enc (by decide) (by decide) (by decide)

/-! ### row boundaries and translation between forest sizes -/

theorem startPositionAtRow_enc {h r : Nat} (hh : h ≤ 63) (hr : r ≤ h) :
    Model.startPositionAtRow (H8 r) (H8 h) = encU h r 0 := by
  apply BitVec.eq_of_toNat_eq
  have f := enc_facts hr
  have h64 : 2 ^ (h + 1) ≤ 2 ^ 64 := two_pow_le_64 (by omega)
  have e : h - r + 1 = h + 1 - r := by omega
  unfold Model.startPositionAtRow
  rw [BitVec.toNat_sub, toNat_two_shl, toNat_two_shl, toNat_H8 hh, toNat_H8_sub hh hr,
    toNat_encU hh hr (Nat.two_pow_pos _), enc_val, e]
  omega

theorem maxPossiblePosAtRow_enc {h r : Nat} (hh : h ≤ 63) (hr : r ≤ h) :
    Model.maxPossiblePosAtRow (H8 r) (H8 h) = encU h r (2 ^ (h - r) - 1) := by
  apply BitVec.eq_of_toNat_eq
  have f := enc_facts hr
  have h64 : 2 ^ (h + 1) ≤ 2 ^ 64 := two_pow_le_64 (by omega)
  show ((shl (shl 2#64 (H8 h).toNat - 1#64) (H8 h - H8 r).toNat &&&
    (shl 2#64 (H8 h).toNat - 1#64)) - 1#64).toNat = _
  rw [BitVec.toNat_sub, toNat_H8 hh, toNat_H8_sub hh hr, toNat_shl_and_mask hh, toNat_mask hh,
    pred_mul_mod (by omega) (by omega), toNat_encU hh hr (by omega), enc_val,
    BitVec.toNat_one (by decide)]
  omega

theorem translatePos_enc {h h' r o : Nat} (hh : h ≤ 63) (hr : r ≤ h) (ho : o < 2 ^ (h - r))
    (hh' : h' ≤ 63) (hr' : r ≤ h') (ho' : o < 2 ^ (h' - r)) :
    Model.translatePos (encU h r o) (H8 h) (H8 h') = encU h' r o := by
  unfold Model.translatePos
  simp only [detectRow_enc hh hr ho]
  by_cases hr0 : r = 0
  · subst hr0
    simp only [beq_self_eq_true, if_true]
    unfold encU
    rw [enc_val, enc_val, Nat.sub_zero, Nat.sub_zero, Nat.sub_self, Nat.sub_self]
  · have hne : (BitVec.ofNat 8 r == 0#8) = false := by
      apply beq_false_of_ne
      intro hc
      have := congrArg BitVec.toNat hc
      rw [toNat_H8 (by omega)] at this
      exact hr0 this
    rw [hne]
    simp only [Bool.false_eq_true, if_false]
    rw [startPositionAtRow_enc hh hr, startPositionAtRow_enc hh' hr']
    unfold encU
    rw [enc_add h r o, enc_add h' r o, BitVec.ofNat_add, BitVec.ofNat_add,
      BitVec.add_comm (BitVec.ofNat 64 (Spec.enc h (r, 0))), BitVec.add_sub_cancel,
      BitVec.add_comm]

example : Model.startPositionAtRow 2#8 3#8 = 12#64 ∧ Model.maxPossiblePosAtRow 1#8 3#8 = 11#64 := by
  decide
example : Model.maxPossiblePosAtRow (H8 1) (H8 3) = encU 3 1 3 :=
  maxPossiblePosAtRow_enc (by decide) (by decide)
/-- position 9 = (row 1, offset 1) of a 3-row forest is position 17 of a 4-row forest -/
example : Model.translatePos 9#64 3#8 4#8 = 17#64 := by decide
example : Model.translatePos (encU 3 1 1) (H8 3) (H8 4) = encU 4 1 1 :=
  translatePos_enc (by decide) (by decide) (by decide) (by decide) (by decide) (by decide)

/-! ### `TreeRows` -/

theorem treeRows_spec {n : Nat} (hn : n < 2 ^ 64) :
    (Model.TreeRows (BitVec.ofNat 64 n)).toNat = Spec.forestRows n := by
  unfold Model.TreeRows Spec.forestRows
  by_cases h0 : n = 0
  · subst h0; rfl
  · have hne : (BitVec.ofNat 64 n == 0#64) = false := by
      apply beq_false_of_ne
      intro hc
      have := congrArg BitVec.toNat hc
      rw [toNat_ofNat64_of_lt hn] at this
      exact h0 this
    rw [hne]
    simp only [Bool.false_eq_true, if_false]
    have e : BitVec.ofNat 64 n - 1#64 = BitVec.ofNat 64 (n - 1) :=
      BitVec.ofNat_sub_ofNat_of_le n 1 (by decide) (by omega)
    rw [e]
    by_cases h1 : n = 1
    · subst h1; rfl
    · have hne' : BitVec.ofNat 64 (n - 1) ≠ 0#64 := by
        intro hc
        have := congrArg BitVec.toNat hc
        rw [toNat_ofNat64_of_lt (by omega)] at this
        have : n - 1 = 0 := this
        omega
      have hlog : (n - 1).log2 < 64 := (Nat.log2_lt (by omega)).2 (by omega)
      unfold len64 ofInt
      rw [if_neg hne', if_neg (by omega), toNat_ofNat64_of_lt (by omega),
        BitVec.ofInt_natCast, BitVec.toNat_ofNat]
      omega

example : Model.TreeRows 5#64 = 3#8 ∧ Model.TreeRows 8#64 = 3#8 ∧ Model.TreeRows 9#64 = 4#8 := by
  decide
example : Spec.forestRows 5 = 3 ∧ Spec.forestRows 8 = 3 ∧ Spec.forestRows 9 = 4 := by decide

end UtreexoVerif.Props.C16
