/-
  C06 — undo is the exact inverse of a block, to any reorganisation depth.
  Specification side (slot forest `Spec.Forest`).

  Summary of what is proved here (details at each theorem):

  * `isUndo_of_modify` (a): for a valid block, the pre-block forest satisfies `IsUndo` for the
    post-block forest and the block's undo data.
  * `slot_uniqueness_false`, `no_slot_level_undo` (b, negative): on SLOT LISTS uniqueness is
    false — two different slot lists with identical observables are both undo results of the
    same `(F', d)`; hence no function of `(F', d)` returns the pre-block slot list.  The slot
    list carries hidden information (where the dead slots of a collapsed subtree lie).
  * `undo_unique` (b, corrected): uniqueness holds up to observational equivalence `Equiv`
    (same leaf count and same collapsed trees — every observable is a function of these, and
    `modify`/`run` respect it), even when the post-block forest itself is only known up to
    `Equiv`.  Needs `prevRoots`, non-zero leaves and `ph a b ≠ zero`; NO injectivity of `ph`.
  * `undo_unique_slots`: if the post-block SLOT LIST is known exactly, `prevRoots` is
    redundant (`prevRoots_redundant`); `prevRoots_needed` shows that at the observational
    level it is not.
  * `addsAlive_needed`: `undo_unique` assumes that the block's additions are still alive in
    the post-block forest (`AddsAlive`, true right after a valid block); with a colliding hasher
    this cannot be dropped.
  * `isUndoCore_of_killed` / `IsUndoCore.killed_slots`: `IsUndoCore` is the slot equation
    "first `G.numLeaves` slots of `F'` = slots of `G` with `d.hashes` deleted".
  * `undo`, `undo_spec`, `undo_congr`, `undo_modify`, `undo_modify_observables` (c);
    `undoMany_run`, `undo_suffix`, `undo_last_k`, `redo_after_undo` (d).
  * `Example`: counterexamples above, a 3-block history (deletion emptying a tree, addition
    overwriting the empty root), `IsUndo` for its blocks and the `k = 2` composition instance.
-/
import UtreexoVerif.Proofs.SpecUndo
set_option linter.unusedSectionVars false

namespace UtreexoVerif.Props.C06
open UtreexoVerif Hasher Spec Spec.Forest Proofs.SpecNodes

section
variable {H : Type} [DecidableEq H] [Hasher H]

/-! ### definitions -/

/-- The data handed to `Undo`, exactly as the API receives it: number of additions of the
block, PRE-block positions of the deleted leaves (as (row, offset); the `uint64` encoding is
covered by C16) parallel to their hashes, and the previous roots. -/
structure UndoData (H : Type) where
  numAdds : Nat
  targets : List Pos
  hashes : List H
  prevRoots : List H
deriving DecidableEq, Repr

/-- the undo data of the block `(dels, adds)` applied to `F` -/
def undoDataOf (F : Forest H) (dels adds : List H) : UndoData H :=
  ⟨adds.length, dels.map (fun h => (F.posOf h).getD (0, 0)), dels, F.roots⟩

/-- `IsUndo` without the previous roots. -/
structure IsUndoCore (F' : Forest H) (d : UndoData H) (G : Forest H) : Prop where
  /-- the additions are taken back -/
  numLeaves : G.numLeaves + d.numAdds = F'.numLeaves
  /-- every slot below `G.numLeaves` that is alive in `F'` is alive in `G` with the same leaf -/
  survive : ∀ (i : Nat) (h : H), i < G.numLeaves → F'.slots[i]? = some (some h) → G.slots[i]? = some (some h)
  /-- a leaf alive in `G` that is not alive (in its slot) in `F'` is one of `d.hashes` … -/
  revived : ∀ (i : Nat) (h : H), G.slots[i]? = some (some h) → F'.slots[i]? ≠ some (some h) → h ∈ d.hashes
  /-- … and those are dead in `F'` -/
  hashes_dead : ∀ h ∈ d.hashes, h ∉ F'.liveLeaves
  len : d.targets.length = d.hashes.length
  /-- … and each sits at its target position in `G` -/
  pos : ∀ i (h1 : i < d.hashes.length) (h2 : i < d.targets.length),
    G.posOf d.hashes[i] = some d.targets[i]

/-- "`G` is a forest that `Undo(F', d)` may return". -/
structure IsUndo (F' : Forest H) (d : UndoData H) (G : Forest H) : Prop
    extends IsUndoCore F' d G where
  roots : G.roots = d.prevRoots

/-- well-formed forest: distinct, non-zero live leaves -/
structure WF (F : Forest H) : Prop where
  nodup : F.liveLeaves.Nodup
  nonzero : ∀ x ∈ F.liveLeaves, x ≠ (zero : H)

/-- a valid block for `F` -/
structure ValidBlock (F : Forest H) (dels adds : List H) : Prop where
  dels_live : ∀ x ∈ dels, x ∈ F.liveLeaves
  dels_nodup : dels.Nodup
  adds_fresh : ∀ x ∈ adds, x ∉ F.liveLeaves
  adds_nodup : adds.Nodup
  adds_nonzero : ∀ x ∈ adds, x ≠ (zero : H)

/-- the last `k` slots (the block's additions) are alive -/
def AddsAlive (F' : Forest H) (k : Nat) : Prop :=
  ∀ i, F'.numLeaves - k ≤ i → i < F'.numLeaves → ∃ h, F'.slots[i]? = some (some h)

/-! ### slot-level consequences of `IsUndoCore` -/

theorem IsUndoCore.killed_slots {F' G : Forest H} {d : UndoData H} (u : IsUndoCore F' d G) :
    (G.delLeaves d.hashes).slots = F'.slots.take G.numLeaves := by
  rw [delLeaves_slots]
  apply List.ext_getElem?
  intro i
  rw [List.getElem?_map, List.getElem?_take]
  have hlen := u.numLeaves
  unfold Forest.numLeaves at hlen
  by_cases hi : i < G.numLeaves
  · rw [if_pos hi]
    unfold Forest.numLeaves at hi
    have hg : G.slots[i]? = some G.slots[i] := List.getElem?_eq_getElem hi
    have hf : F'.slots[i]? = some (F'.slots[i]'(by omega)) := List.getElem?_eq_getElem (by omega)
    cases hfv : F'.slots[i]'(by omega) with
    | some h =>
      rw [hfv] at hf
      have := u.survive i h hi hf
      rw [this, hf]
      have hnot : h ∉ d.hashes := by
        intro hm
        apply u.hashes_dead h hm
        rw [Forest.mem_liveLeaves]
        exact List.mem_of_getElem? hf
      simp [kill, hnot]
    | none =>
      rw [hfv] at hf
      rw [hf, hg]
      cases hgv : G.slots[i] with
      | none => simp [kill]
      | some h =>
        rw [hgv] at hg
        have := u.revived i h hg (by rw [hf]; simp)
        simp [kill, this]
  · rw [if_neg hi]
    have : G.slots[i]? = none := by
      apply List.getElem?_eq_none
      unfold Forest.numLeaves at hi
      omega
    rw [this]; rfl

theorem all_some_eq_map : ∀ (l : List (Option H)), (∀ a ∈ l, ∃ h, a = some h) →
    l = (l.filterMap id).map some := by
  intro l
  induction l with
  | nil => intro _; rfl
  | cons a l ih =>
    intro h
    obtain ⟨x, rfl⟩ := h a (by simp)
    simp only [List.filterMap_cons, id, List.map_cons]
    rw [← ih (fun b hb => h b (by simp [hb]))]

/-- the post-block forest is the `hashes`-deleted undo result plus the (alive) additions -/
theorem IsUndoCore.decomp {F' G : Forest H} {d : UndoData H} (u : IsUndoCore F' d G)
    (ha : AddsAlive F' d.numAdds) :
    ∃ adds : List H, adds.length = d.numAdds ∧ F' = (G.delLeaves d.hashes).addMany adds ∧
      F'.liveLeaves = (G.delLeaves d.hashes).liveLeaves ++ adds := by
  have hlen := u.numLeaves
  have hG : G.numLeaves = G.slots.length := rfl
  have hF : F'.numLeaves = F'.slots.length := rfl
  have hall : ∀ a ∈ F'.slots.drop G.numLeaves, ∃ h, a = some h := by
    intro a hmem
    obtain ⟨j, hj, rfl⟩ := List.mem_iff_getElem.1 hmem
    rw [List.length_drop] at hj
    obtain ⟨h, hh⟩ := ha (G.numLeaves + j) (by omega) (by omega)
    refine ⟨h, ?_⟩
    rw [List.getElem_drop]
    have := List.getElem?_eq_getElem (l := F'.slots) (i := G.numLeaves + j) (by omega)
    rw [this] at hh
    exact Option.some.inj hh
  have e := all_some_eq_map _ hall
  refine ⟨(F'.slots.drop G.numLeaves).filterMap id, ?_, ?_, ?_⟩
  · have := congrArg List.length e
    rw [List.length_map, List.length_drop] at this
    omega
  · have hs : F'.slots = (G.delLeaves d.hashes).slots ++
        ((F'.slots.drop G.numLeaves).filterMap id).map some := by
      rw [u.killed_slots, ← e, List.take_append_drop]
    cases F' with
    | mk s => simp only [Forest.addMany, Forest.mk.injEq]; exact hs
  · unfold Forest.liveLeaves
    rw [u.killed_slots, ← List.filterMap_append, List.take_append_drop]

theorem kill_eq_some {R : List H} {a : Option H} {h : H} (hk : kill R a = some h) :
    a = some h ∧ h ∉ R := by
  cases a with
  | none => simp [kill] at hk
  | some x =>
    by_cases hx : x ∈ R
    · simp [kill, hx] at hk
    · simp only [kill, hx, if_false, Option.some.injEq] at hk
      subst hk
      exact ⟨rfl, hx⟩

/-- converse of `killed_slots`: `IsUndoCore` is exactly "the first `G.numLeaves` slots of `F'`
are the slots of `G` with the leaves `d.hashes` deleted", plus the clauses on `d.hashes` -/
theorem isUndoCore_of_killed {F' G : Forest H} {d : UndoData H}
    (hnum : G.numLeaves + d.numAdds = F'.numLeaves)
    (hk : G.slots.map (kill d.hashes) = F'.slots.take G.numLeaves)
    (hdead : ∀ h ∈ d.hashes, h ∉ F'.liveLeaves) (hlen : d.targets.length = d.hashes.length)
    (hpos : ∀ i (h1 : i < d.hashes.length) (h2 : i < d.targets.length),
      G.posOf d.hashes[i] = some d.targets[i]) : IsUndoCore F' d G := by
  have hG : G.numLeaves = G.slots.length := rfl
  have key : ∀ i, i < G.numLeaves → (G.slots[i]?).map (kill d.hashes) = F'.slots[i]? := by
    intro i hi
    have := congrArg (fun l => l[i]?) hk
    simp only [List.getElem?_map, List.getElem?_take, if_pos hi] at this
    exact this
  refine ⟨hnum, ?_, ?_, hdead, hlen, hpos⟩
  · intro i h hi hs
    have := key i hi
    rw [hs] at this
    cases hg : G.slots[i]? with
    | none => rw [hg] at this; simp at this
    | some a =>
      rw [hg] at this
      simp only [Option.map_some, Option.some.injEq] at this
      rw [(kill_eq_some this).1]
  · intro i h hg hne
    have hi : i < G.numLeaves := by
      apply Classical.byContradiction
      intro hc
      rw [List.getElem?_eq_none (by omega)] at hg
      cases hg
    have := key i hi
    rw [hg] at this
    apply Classical.byContradiction
    intro hnd
    apply hne
    rw [← this]
    simp [kill, hnd]

/-- the set form of the third clause of the property text: the leaves alive in `G` but dead
in `F'` are exactly `d.hashes` -/
theorem IsUndoCore.revived_set {F' G : Forest H} {d : UndoData H} (u : IsUndoCore F' d G)
    (h : H) : (h ∈ G.liveLeaves ∧ h ∉ F'.liveLeaves) ↔ h ∈ d.hashes := by
  constructor
  · rintro ⟨hg, hf⟩
    rw [Forest.mem_liveLeaves] at hg
    obtain ⟨i, hi, he⟩ := List.mem_iff_getElem.1 hg
    apply u.revived i h (by rw [List.getElem?_eq_getElem hi, he])
    intro hc
    exact hf (Forest.mem_liveLeaves.2 (List.mem_of_getElem? hc))
  · intro hh
    obtain ⟨i, hi, rfl⟩ := List.mem_iff_getElem.1 hh
    exact ⟨live_of_posOf (u.pos i hi (u.len ▸ hi)), u.hashes_dead _ hh⟩

/-! ### (a) existence: the pre-block forest is an undo result -/

theorem modify_slots (F : Forest H) (dels adds : List H) :
    (F.modify dels adds).slots = F.slots.map (kill dels) ++ adds.map some := by
  unfold Forest.modify Forest.addMany
  rw [delLeaves_slots]

theorem filterMap_kill (R : List H) : ∀ l : List (Option H),
    (l.map (kill R)).filterMap id = (l.filterMap id).filter (fun h => decide (h ∉ R)) := by
  intro l
  induction l with
  | nil => rfl
  | cons a l ih =>
    cases a with
    | none => simpa [kill] using ih
    | some x =>
      by_cases hx : x ∈ R
      · simpa [kill, hx] using ih
      · simp only [List.map_cons, kill, hx, if_false, List.filterMap_cons, id]
        rw [ih, List.filter_cons]
        simp [hx]

theorem liveLeaves_modify (F : Forest H) (dels adds : List H) :
    (F.modify dels adds).liveLeaves =
      F.liveLeaves.filter (fun h => decide (h ∉ dels)) ++ adds := by
  unfold Forest.liveLeaves
  rw [modify_slots, List.filterMap_append, filterMap_kill]
  congr 1
  induction adds with
  | nil => rfl
  | cons a l ih => simp

/-- a valid block keeps the forest well-formed -/
theorem WF.modify {F : Forest H} (w : WF F) {dels adds : List H} (v : ValidBlock F dels adds) :
    WF (F.modify dels adds) := by
  constructor
  · rw [liveLeaves_modify, List.nodup_append]
    refine ⟨w.nodup.sublist List.filter_sublist, v.adds_nodup, ?_⟩
    intro a ha b hb hab
    subst hab
    exact v.adds_fresh a hb ((List.mem_filter.1 ha).1)
  · intro x hx
    rw [liveLeaves_modify, List.mem_append] at hx
    rcases hx with hx | hx
    · exact w.nonzero x ((List.mem_filter.1 hx).1)
    · exact v.adds_nonzero x hx

theorem addsAlive_modify (F : Forest H) (dels adds : List H) :
    AddsAlive (F.modify dels adds) adds.length := by
  intro i h1 h2
  rw [numLeaves_modify] at h1 h2
  have hF : F.numLeaves = F.slots.length := rfl
  rw [modify_slots, List.getElem?_append_right (by rw [List.length_map]; omega), List.length_map,
    List.getElem?_map]
  have : i - F.slots.length < adds.length := by omega
  rw [List.getElem?_eq_getElem this]
  exact ⟨_, rfl⟩

/-- **(a)** For a valid block, the pre-block forest is an undo result of the post-block
forest and the block's undo data. -/
theorem isUndo_of_modify (F : Forest H) (dels adds : List H) (hn : F.numLeaves < 2 ^ 64)
    (v : ValidBlock F dels adds) :
    IsUndo (F.modify dels adds) (undoDataOf F dels adds) F := by
  have hF : F.numLeaves = F.slots.length := rfl
  refine ⟨⟨?_, ?_, ?_, ?_, ?_, ?_⟩, rfl⟩
  · rw [numLeaves_modify]; rfl
  · intro i h hi hs
    rw [modify_slots, List.getElem?_append_left (by rw [List.length_map]; omega),
      List.getElem?_map] at hs
    cases hg : F.slots[i]? with
    | none => rw [hg] at hs; simp at hs
    | some a =>
      rw [hg] at hs
      simp only [Option.map_some, Option.some.injEq] at hs
      rw [(kill_eq_some hs).1]
  · intro i h hg hne
    have hi : i < F.slots.length := by
      apply Classical.byContradiction
      intro hc
      rw [List.getElem?_eq_none (by omega)] at hg
      cases hg
    rw [modify_slots, List.getElem?_append_left (by rw [List.length_map]; omega),
      List.getElem?_map, hg] at hne
    show h ∈ dels
    apply Classical.byContradiction
    intro hnd
    simp [kill, hnd] at hne
  · intro h hh hlive
    have hh' : h ∈ dels := hh
    rw [liveLeaves_modify, List.mem_append] at hlive
    rcases hlive with hl | hl
    · have := (List.mem_filter.1 hl).2
      simp [hh'] at this
    · exact v.adds_fresh h hl (v.dels_live h hh')
  · simp [undoDataOf]
  · intro i h1 h2
    simp only [undoDataOf, List.getElem_map]
    obtain ⟨p, hp⟩ := posOf_isSome_of_live hn (v.dels_live _ (List.getElem_mem h1))
    simp only [undoDataOf] at hp ⊢
    rw [hp]; rfl

/-! ### (b) uniqueness, up to observational equivalence -/

/-- the revived leaves sit at the same positions in any two undo results -/
theorem revived_positions_agree {F'₁ F'₂ G₁ G₂ : Forest H} {d : UndoData H}
    (u₁ : IsUndoCore F'₁ d G₁) (u₂ : IsUndoCore F'₂ d G₂)
    (h1 : G₁.numLeaves < 2 ^ 64) (h2 : G₂.numLeaves < 2 ^ 64)
    (nd₁ : G₁.liveLeaves.Nodup) (nd₂ : G₂.liveLeaves.Nodup) :
    ∀ x ∈ d.hashes, ∀ p, (p, x, true) ∈ G₁.nodes ↔ (p, x, true) ∈ G₂.nodes := by
  intro x hx p
  obtain ⟨i, hi, rfl⟩ := List.mem_iff_getElem.1 hx
  have a := u₁.pos i hi (u₁.len ▸ hi)
  have b := u₂.pos i hi (u₁.len ▸ hi)
  rw [← posOf_eq_some_iff h1 nd₁, ← posOf_eq_some_iff h2 nd₂, a, b]

/-- **(b), exact post-block slot list: `prevRoots` is not needed.**  If the post-block SLOT
LIST `F'` is known exactly, the survivors' slots and the revived leaves' positions determine
the undo result up to observational equivalence.  No hypothesis on the hash function, on
zero leaves or on the previous roots. -/
theorem undo_unique_slots {F' G₁ G₂ : Forest H} {d : UndoData H} (hn : F'.numLeaves < 2 ^ 64)
    (u₁ : IsUndoCore F' d G₁) (u₂ : IsUndoCore F' d G₂)
    (nd₁ : G₁.liveLeaves.Nodup) (nd₂ : G₂.liveLeaves.Nodup) : Equiv G₁ G₂ := by
  have hnum : G₁.numLeaves = G₂.numLeaves := by
    have := u₁.numLeaves; have := u₂.numLeaves; omega
  have h1 : G₁.numLeaves < 2 ^ 64 := by have := u₁.numLeaves; omega
  have h2 : G₂.numLeaves < 2 ^ 64 := by omega
  refine ⟨hnum, ?_⟩
  apply trees_eq_of_pruned d.hashes hnum (revived_positions_agree u₁ u₂ h1 h2 nd₁ nd₂)
  have : G₁.delLeaves d.hashes = G₂.delLeaves d.hashes := by
    have e1 := u₁.killed_slots
    have e2 := u₂.killed_slots
    rw [hnum, ← e2] at e1
    cases hA : G₁.delLeaves d.hashes
    cases hB : G₂.delLeaves d.hashes
    rw [hA, hB] at e1
    simpa using e1
  rw [this]

/-- hence, with the exact slot list, the previous roots are redundant information -/
theorem prevRoots_redundant {F' G₁ G₂ : Forest H} {d : UndoData H} (hn : F'.numLeaves < 2 ^ 64)
    (u₁ : IsUndoCore F' d G₁) (u₂ : IsUndo F' d G₂)
    (nd₁ : G₁.liveLeaves.Nodup) (nd₂ : G₂.liveLeaves.Nodup) : G₁.roots = d.prevRoots := by
  rw [← u₂.roots]
  exact (undo_unique_slots hn u₁ u₂.toIsUndoCore nd₁ nd₂).roots

/-- Full statement of (b), corrected: undo results are unique up to observational
equivalence, even if the post-block forest is itself only known up to observational
equivalence (which is all a pointer/map implementation has). -/
def undo_unique_statement (H : Type) [DecidableEq H] [Hasher H] : Prop :=
  ∀ (F'₁ F'₂ G₁ G₂ : Forest H) (d : UndoData H),
    (∀ a b : H, ph a b ≠ (zero : H)) → F'₁.numLeaves < 2 ^ 64 → Equiv F'₁ F'₂ →
    AddsAlive F'₁ d.numAdds → AddsAlive F'₂ d.numAdds →
    IsUndo F'₁ d G₁ → IsUndo F'₂ d G₂ → WF G₁ → WF G₂ → Equiv G₁ G₂

/-- **(b)** uniqueness of undo, up to observational equivalence.  Uses the previous roots
(to recover which roots were empty before additions overwrote them), non-zero leaves and
`ph a b ≠ zero`; injectivity of `ph` is NOT needed. -/
theorem undo_unique : undo_unique_statement H := by
  intro F'₁ F'₂ G₁ G₂ d hph hn e a₁ a₂ u₁ u₂ w₁ w₂
  have hnum : G₁.numLeaves = G₂.numLeaves := by
    have := u₁.numLeaves; have := u₂.numLeaves; have := e.numLeaves; omega
  have h1 : G₁.numLeaves < 2 ^ 64 := by have := u₁.numLeaves; omega
  have h2 : G₂.numLeaves < 2 ^ 64 := by omega
  have hpos := revived_positions_agree u₁.toIsUndoCore u₂.toIsUndoCore h1 h2 w₁.nodup w₂.nodup
  obtain ⟨adds₁, l₁, f₁, v₁⟩ := u₁.toIsUndoCore.decomp a₁
  obtain ⟨adds₂, l₂, f₂, v₂⟩ := u₂.toIsUndoCore.decomp a₂
  have hadds : adds₁ = adds₂ := by
    have := e.liveLeaves hn
    rw [v₁, v₂] at this
    exact (List.append_inj' this (by rw [l₁, l₂])).2
  subst hadds
  have ht := e.trees
  rw [f₁, f₂] at ht
  refine ⟨hnum, ?_⟩
  apply trees_eq_of_pruned d.hashes hnum hpos
  exact killed_trees_eq hph d.hashes adds₁ hnum (by have := u₁.numLeaves; omega) w₁.nonzero
    w₂.nonzero (u₁.roots.trans u₂.roots.symm) hpos ht

/-! ### (c) the undo function -/

/-- `G` is an acceptable result of undoing `d` in (the observational class of) `F'`: it is
well-formed and satisfies `IsUndo` for some slot representative of `F'` whose last
`d.numAdds` slots (the block's additions) are alive. -/
def UndoResult (F' : Forest H) (d : UndoData H) (G : Forest H) : Prop :=
  WF G ∧ ∃ F'', Equiv F'' F' ∧ AddsAlive F'' d.numAdds ∧ IsUndo F'' d G

open Classical in
/-- the specification's undo: some acceptable result (they are all observationally
equivalent, `undo_spec`); the forest itself if there is none -/
noncomputable def undo (F' : Forest H) (d : UndoData H) : Forest H :=
  if h : ∃ G, UndoResult F' d G then Classical.choose h else F'

theorem undoResult_unique (hph : ∀ a b : H, ph a b ≠ (zero : H)) {F'₁ F'₂ G₁ G₂ : Forest H}
    {d : UndoData H} (hn : F'₁.numLeaves < 2 ^ 64) (e : Equiv F'₁ F'₂)
    (r₁ : UndoResult F'₁ d G₁) (r₂ : UndoResult F'₂ d G₂) : Equiv G₁ G₂ := by
  obtain ⟨w₁, X₁, e₁, a₁, u₁⟩ := r₁
  obtain ⟨w₂, X₂, e₂, a₂, u₂⟩ := r₂
  exact undo_unique X₁ X₂ G₁ G₂ d hph (by rw [e₁.numLeaves]; exact hn)
    (e₁.trans (e.trans e₂.symm)) a₁ a₂ u₁ u₂ w₁ w₂

theorem undo_isResult {F' G : Forest H} {d : UndoData H} (r : UndoResult F' d G) :
    UndoResult F' d (undo F' d) := by
  have h : ∃ G, UndoResult F' d G := ⟨G, r⟩
  unfold undo
  rw [dif_pos h]
  exact Classical.choose_spec h

/-- `undo` returns THE undo result (up to observational equivalence) -/
theorem undo_spec (hph : ∀ a b : H, ph a b ≠ (zero : H)) {F' G : Forest H} {d : UndoData H}
    (hn : F'.numLeaves < 2 ^ 64) (r : UndoResult F' d G) : Equiv (undo F' d) G :=
  undoResult_unique hph hn (Equiv.refl F') (undo_isResult r) r

/-- `undo` respects observational equivalence of its input -/
theorem undo_congr (hph : ∀ a b : H, ph a b ≠ (zero : H)) {F'₁ F'₂ G : Forest H}
    {d : UndoData H} (hn : F'₁.numLeaves < 2 ^ 64) (e : Equiv F'₁ F'₂)
    (r : UndoResult F'₁ d G) : Equiv (undo F'₁ d) (undo F'₂ d) := by
  have r₂ : UndoResult F'₂ d G := by
    obtain ⟨w, X, eX, a, u⟩ := r
    exact ⟨w, X, eX.trans e, a, u⟩
  exact undoResult_unique hph hn e (undo_isResult r) (undo_isResult r₂)

theorem undoResult_of_modify {F F' : Forest H} (w : WF F) {dels adds : List H}
    (v : ValidBlock F dels adds) (hn : F.numLeaves < 2 ^ 64)
    (e : Equiv F' (F.modify dels adds)) : UndoResult F' (undoDataOf F dels adds) F :=
  ⟨w, F.modify dels adds, e.symm, addsAlive_modify F dels adds, isUndo_of_modify F dels adds hn v⟩

/-- Full statement of (c): undoing a valid block — from any forest observationally equivalent
to the post-block forest — restores the pre-block forest up to observational equivalence. -/
def undo_modify_statement (H : Type) [DecidableEq H] [Hasher H] : Prop :=
  ∀ (F F' : Forest H) (dels adds : List H), (∀ a b : H, ph a b ≠ (zero : H)) → WF F →
    ValidBlock F dels adds → F.numLeaves + adds.length < 2 ^ 64 →
    Equiv F' (F.modify dels adds) → Equiv (undo F' (undoDataOf F dels adds)) F

/-- **(c)** `undo (modify F blk) ≈ F` -/
theorem undo_modify : undo_modify_statement H := by
  intro F F' dels adds hph w v hn e
  apply undo_spec hph (by rw [e.numLeaves, numLeaves_modify]; exact hn)
  exact undoResult_of_modify w v (by omega) e

/-- **(c), observables**: after undo every observable equals the one before the block: roots,
leaf count, node hash at every position, position of every leaf (`none` for leaves that are
not live, so also the provable set), canonical proof positions and canonical proofs
(`canon`, byte-identical) of every leaf list, and the live leaves. -/
theorem undo_modify_observables (hph : ∀ a b : H, ph a b ≠ (zero : H)) (F : Forest H)
    (w : WF F) (dels adds : List H) (v : ValidBlock F dels adds)
    (hn : F.numLeaves + adds.length < 2 ^ 64) :
    let U := undo (F.modify dels adds) (undoDataOf F dels adds)
    U.roots = F.roots ∧ U.numLeaves = F.numLeaves ∧ U.nodes = F.nodes ∧
    (∀ p, U.nodeAt p = F.nodeAt p) ∧ (∀ h, U.posOf h = F.posOf h) ∧
    (∀ ts, U.proofPositions ts = F.proofPositions ts) ∧
    (∀ ls, U.canon ls = F.canon ls) ∧ U.liveLeaves = F.liveLeaves := by
  intro U
  have e : Equiv U F := undo_modify F _ dels adds hph w v hn (Equiv.refl _)
  exact ⟨e.roots, e.numLeaves, e.nodes, e.nodeAt, e.posOf, e.proofPositions, e.canon,
    e.liveLeaves (by rw [e.numLeaves]; omega)⟩

/-! ### (d) composition -/

/-- every block of the history is valid at its point -/
def ValidHist (F : Forest H) : List (Block H) → Prop
  | [] => True
  | b :: rest => ValidBlock F b.1 b.2 ∧ ValidHist (F.modify b.1 b.2) rest

/-- the undo data of the blocks of a history, oldest first -/
def undoDatas (F : Forest H) : List (Block H) → List (UndoData H)
  | [] => []
  | b :: rest => undoDataOf F b.1 b.2 :: undoDatas (F.modify b.1 b.2) rest

/-- undo the blocks whose undo data are `ds` (given oldest first): the NEWEST block is undone
first -/
noncomputable def undoMany (G : Forest H) (ds : List (UndoData H)) : Forest H :=
  ds.foldr (fun d acc => undo acc d) G

theorem numLeaves_run (F : Forest H) (hist : List (Block H)) :
    (run F hist).numLeaves = F.numLeaves + (allAdds hist).length := by
  induction hist generalizing F with
  | nil => simp [run]
  | cons b rest ih =>
    rw [run, ih, numLeaves_modify]
    simp only [allAdds_cons, List.length_append]
    omega

theorem WF.run {F : Forest H} (w : WF F) {hist : List (Block H)} (v : ValidHist F hist) :
    WF (run F hist) := by
  induction hist generalizing F with
  | nil => exact w
  | cons b rest ih => exact ih (w.modify v.1) v.2

theorem validHist_append {F : Forest H} {h1 h2 : List (Block H)} :
    ValidHist F (h1 ++ h2) ↔ ValidHist F h1 ∧ ValidHist (run F h1) h2 := by
  induction h1 generalizing F with
  | nil => simp [ValidHist, run]
  | cons b rest ih =>
    simp only [List.cons_append, ValidHist, run, ih, and_assoc]

theorem undoDatas_append (F : Forest H) (h1 h2 : List (Block H)) :
    undoDatas F (h1 ++ h2) = undoDatas F h1 ++ undoDatas (run F h1) h2 := by
  induction h1 generalizing F with
  | nil => rfl
  | cons b rest ih => simp only [List.cons_append, undoDatas, run, ih]

theorem undoDatas_length (F : Forest H) (h : List (Block H)) :
    (undoDatas F h).length = h.length := by
  induction h generalizing F with
  | nil => rfl
  | cons b rest ih => simp [undoDatas, ih]

/-- Full statement of (d), suffix form: from any forest observationally equivalent to the
state after `suf`, undoing the blocks of `suf` newest-first yields the state before `suf`. -/
def undoMany_run_statement (H : Type) [DecidableEq H] [Hasher H] : Prop :=
  ∀ (F G : Forest H) (suf : List (Block H)), (∀ a b : H, ph a b ≠ (zero : H)) → WF F →
    ValidHist F suf → F.numLeaves + (allAdds suf).length < 2 ^ 64 →
    Equiv G (run F suf) → Equiv (undoMany G (undoDatas F suf)) F

theorem undoMany_run : undoMany_run_statement H := by
  intro F G suf hph
  induction suf generalizing F G with
  | nil => intro _ _ _ e; exact e
  | cons b rest ih =>
    intro w v hn e
    simp only [allAdds_cons, List.length_append] at hn
    simp only [undoDatas, undoMany, List.foldr_cons]
    have e1 : Equiv (undoMany G (undoDatas (F.modify b.1 b.2) rest)) (F.modify b.1 b.2) :=
      ih (F.modify b.1 b.2) G (w.modify v.1) v.2 (by rw [numLeaves_modify]; omega) e
    exact undo_modify F _ b.1 b.2 hph w v.1 (by omega) e1

/-- **(d)** For a valid history from a well-formed `F₀`, undoing the blocks after the first
`j` (newest first) restores the state after the first `j` blocks.  With
`j = hist.length - k` this is "undoing the last `k` blocks". -/
theorem undo_suffix (hph : ∀ a b : H, ph a b ≠ (zero : H)) (F₀ : Forest H) (w : WF F₀)
    (hist : List (Block H)) (v : ValidHist F₀ hist)
    (hn : F₀.numLeaves + (allAdds hist).length < 2 ^ 64) (j : Nat) :
    Equiv (undoMany (run F₀ hist) ((undoDatas F₀ hist).drop j)) (run F₀ (hist.take j)) := by
  by_cases hj : j ≤ hist.length
  · have hsplit : hist = hist.take j ++ hist.drop j := (List.take_append_drop j hist).symm
    have v' := v
    rw [hsplit, validHist_append] at v'
    have hd : (undoDatas F₀ hist).drop j = undoDatas (run F₀ (hist.take j)) (hist.drop j) := by
      conv => lhs; rw [hsplit, undoDatas_append]
      rw [List.drop_append_of_le_length (by rw [undoDatas_length, List.length_take]; omega),
        List.drop_eq_nil_of_le (by rw [undoDatas_length, List.length_take]; omega)]
      rfl
    rw [hd]
    apply undoMany_run _ _ _ hph (w.run v'.1) v'.2
    · rw [numLeaves_run, Nat.add_assoc, ← List.length_append, ← allAdds_append, ← hsplit]
      exact hn
    · rw [← run_append, ← hsplit]
      exact Equiv.refl _
  · rw [List.drop_eq_nil_of_le (by rw [undoDatas_length]; omega),
      List.take_of_length_le (by omega)]
    exact Equiv.refl _

/-- **(d)**, "last `k` blocks" form -/
theorem undo_last_k (hph : ∀ a b : H, ph a b ≠ (zero : H)) (F₀ : Forest H) (w : WF F₀)
    (hist : List (Block H)) (v : ValidHist F₀ hist)
    (hn : F₀.numLeaves + (allAdds hist).length < 2 ^ 64) (k : Nat) :
    Equiv (undoMany (run F₀ hist) ((undoDatas F₀ hist).drop (hist.length - k)))
      (run F₀ (hist.take (hist.length - k))) :=
  undo_suffix hph F₀ w hist v hn _

/-- **(d), redo**: applying any further blocks (the same or different ones) after the undo
behaves exactly as applying them to the state `k` blocks ago — as if the undone blocks had
never been applied: the resulting forests are observationally equivalent, so all their
observables coincide. -/
theorem redo_after_undo (hph : ∀ a b : H, ph a b ≠ (zero : H)) (F₀ : Forest H) (w : WF F₀)
    (hist : List (Block H)) (v : ValidHist F₀ hist)
    (hn : F₀.numLeaves + (allAdds hist).length < 2 ^ 64) (k : Nat) (more : List (Block H))
    (hm : F₀.numLeaves + (allAdds (hist.take (hist.length - k))).length +
      (allAdds more).length ≤ 2 ^ 64) :
    Equiv (run (undoMany (run F₀ hist) ((undoDatas F₀ hist).drop (hist.length - k))) more)
      (run F₀ (hist.take (hist.length - k) ++ more)) := by
  have e := undo_last_k hph F₀ w hist v hn k
  rw [run_append]
  apply e.run more
  rw [e.numLeaves, numLeaves_run]
  exact hm

/-! ### decidability (for concrete instances) -/

instance (F : Forest H) : Decidable (WF F) :=
  decidable_of_iff (F.liveLeaves.Nodup ∧ ∀ x ∈ F.liveLeaves, x ≠ (zero : H))
    ⟨fun h => ⟨h.1, h.2⟩, fun h => ⟨h.1, h.2⟩⟩

instance (F : Forest H) (dels adds : List H) : Decidable (ValidBlock F dels adds) :=
  decidable_of_iff ((∀ x ∈ dels, x ∈ F.liveLeaves) ∧ dels.Nodup ∧ (∀ x ∈ adds, x ∉ F.liveLeaves) ∧
      adds.Nodup ∧ ∀ x ∈ adds, x ≠ (zero : H))
    ⟨fun h => ⟨h.1, h.2.1, h.2.2.1, h.2.2.2.1, h.2.2.2.2⟩,
     fun h => ⟨h.1, h.2, h.3, h.4, h.5⟩⟩

instance decValidHist : ∀ (F : Forest H) (hist : List (Block H)), Decidable (ValidHist F hist)
  | _, [] => isTrue trivial
  | F, b :: rest =>
    have := decValidHist (F.modify b.1 b.2) rest
    inferInstanceAs (Decidable (ValidBlock F b.1 b.2 ∧ ValidHist (F.modify b.1 b.2) rest))

theorem forest_ext {F G : Forest H} (h : F.slots = G.slots) : F = G := by
  cases F; cases G; simp_all

/-- `IsUndoCore` does not look at the previous roots -/
theorem IsUndoCore.congr_roots {F' G : Forest H} {d : UndoData H} (u : IsUndoCore F' d G)
    (r : List H) : IsUndoCore F' { d with prevRoots := r } G :=
  ⟨u.numLeaves, u.survive, u.revived, u.hashes_dead, u.len, u.pos⟩

end

/-! ### counterexamples and non-vacuity -/

namespace Example
open Spec.NodesUniqueExample

theorem hph : ∀ a b : Term, ph a b ≠ (zero : Term) := termCR.nonzero

/-! #### uniqueness on slot lists is FALSE -/

/-- four slots, leaves `1`, `2` in slots 0 and 1 -/
def S₁ : Forest Term := ⟨[some (.atom 1), some (.atom 2), none, none]⟩
/-- four slots, leaves `1`, `2` in slots 0 and 2 -/
def S₂ : Forest Term := ⟨[some (.atom 1), none, some (.atom 2), none]⟩

/-- the two forests are observationally equivalent: one tree `node 1 2` -/
theorem S_equiv : Equiv S₁ S₂ := ⟨rfl, by decide +kernel⟩

theorem S_modify : S₁.modify [.atom 2] [] = S₂.modify [.atom 2] [] :=
  forest_ext (by decide)

theorem S_data : undoDataOf S₁ [.atom 2] [] = undoDataOf S₂ [.atom 2] [] := by decide +kernel

theorem S₁_valid : ValidBlock S₁ [.atom 2] [] := by decide
theorem S₂_valid : ValidBlock S₂ [.atom 2] [] := by decide

/-- **(b) is FALSE on slot lists**: deleting leaf `2` from `S₁` and from `S₂` gives the same
forest and the same undo data (including the previous roots), both `S₁` and `S₂` satisfy
`IsUndo` and are well-formed — but they are different slot lists.  (They are observationally
equivalent, as `undo_unique` says they must be.) -/
theorem slot_uniqueness_false :
    ∃ (F' G₁ G₂ : Forest Term) (d : UndoData Term),
      IsUndo F' d G₁ ∧ IsUndo F' d G₂ ∧ WF G₁ ∧ WF G₂ ∧ AddsAlive F' d.numAdds ∧
      G₁.slots ≠ G₂.slots ∧ Equiv G₁ G₂ := by
  refine ⟨S₁.modify [.atom 2] [], S₁, S₂, undoDataOf S₁ [.atom 2] [],
    isUndo_of_modify S₁ _ _ (by decide) S₁_valid, ?_, by decide, by decide,
    addsAlive_modify S₁ _ _, by decide, S_equiv⟩
  rw [S_modify, S_data]
  exact isUndo_of_modify S₂ _ _ (by decide) S₂_valid

/-- the literal form of (b) — equality of the undo results — kept visible; it is FALSE -/
def undo_unique_literal_statement (H : Type) [DecidableEq H] [Hasher H] : Prop :=
  ∀ (F' G₁ G₂ : Forest H) (d : UndoData H), IsUndo F' d G₁ → IsUndo F' d G₂ → WF G₁ → WF G₂ →
    G₁ = G₂

theorem undo_unique_literal_false : ¬ undo_unique_literal_statement Term := by
  intro h
  obtain ⟨F', G₁, G₂, d, u₁, u₂, w₁, w₂, _, hne, _⟩ := slot_uniqueness_false
  exact hne (by rw [h F' G₁ G₂ d u₁ u₂ w₁ w₂])

/-- hence NO function of the post-block forest and the undo data returns the pre-block slot
list for every valid block: `undo (modify F blk) = F` cannot hold as an equality of slot
lists; the slot list is not an observable. -/
theorem no_slot_level_undo :
    ¬ ∃ u : Forest Term → UndoData Term → Forest Term,
      ∀ (F : Forest Term) (dels adds : List Term), WF F → ValidBlock F dels adds →
        F.numLeaves < 2 ^ 64 → u (F.modify dels adds) (undoDataOf F dels adds) = F := by
  rintro ⟨u, hu⟩
  have h1 := hu S₁ [.atom 2] [] (by decide) S₁_valid (by decide)
  have h2 := hu S₂ [.atom 2] [] (by decide) S₂_valid (by decide)
  rw [S_modify, S_data, h2] at h1
  have : S₂.slots = S₁.slots := by rw [h1]
  revert this
  decide

/-! #### at the observational level the previous roots ARE needed -/

def P₁ : Forest Term := ⟨[some (.atom 1), none, none]⟩
def P₂ : Forest Term := ⟨[none, none, some (.atom 1)]⟩

/-- adding one leaf to `P₁` (roots `[1, zero]`) and to `P₂` (roots `[zero, 1]`) gives
observationally equivalent forests (one tree `node 1 9`: the addition overwrote the empty
root), with the same undo data except for the previous roots.  Without `prevRoots` both `P₁`
and `P₂` are acceptable undo results, and they are NOT observationally equivalent. -/
theorem prevRoots_needed :
    ∃ (F'₁ F'₂ G₁ G₂ : Forest Term) (d : UndoData Term), Equiv F'₁ F'₂ ∧
      AddsAlive F'₁ d.numAdds ∧ AddsAlive F'₂ d.numAdds ∧
      IsUndoCore F'₁ d G₁ ∧ IsUndoCore F'₂ d G₂ ∧ WF G₁ ∧ WF G₂ ∧ G₁.roots ≠ G₂.roots := by
  refine ⟨P₁.modify [] [.atom 9], P₂.modify [] [.atom 9], P₁, P₂, ⟨1, [], [], []⟩,
    ⟨rfl, by decide +kernel⟩, addsAlive_modify P₁ [] [.atom 9], addsAlive_modify P₂ [] [.atom 9],
    ?_, ?_, by decide, by decide, by decide +kernel⟩
  · exact (isUndo_of_modify P₁ [] [.atom 9] (by decide) (by decide)).toIsUndoCore.congr_roots []
  · exact (isUndo_of_modify P₂ [] [.atom 9] (by decide) (by decide)).toIsUndoCore.congr_roots []

/-- `undo_unique_slots` / `prevRoots_redundant` instantiated: with the exact post-block slot
list the two undo results are equivalent without looking at the roots -/
example : Equiv S₁ S₂ := by
  have u₂ := (isUndo_of_modify S₂ _ _ (by decide) S₂_valid)
  rw [← S_modify, ← S_data] at u₂
  exact undo_unique_slots (by decide)
    (isUndo_of_modify S₁ _ _ (by decide) S₁_valid).toIsUndoCore u₂.toIsUndoCore
    (by decide) (by decide)

/-! #### `AddsAlive` cannot be dropped when `ph` is only assumed to avoid zero -/

/-- a degenerate hasher: `ph` is constant (non-zero) -/
structure D where
  v : Nat
deriving DecidableEq, Repr

instance : Hasher D := ⟨fun _ _ => ⟨1⟩, ⟨0⟩⟩

/-- With a colliding (but never-zero) hasher and a post-block forest whose "added" slot is
dead, two inequivalent forests are undo results of equivalent forests for the same data
(`[1, 2, dead]`, roots `[ph 1 2, zero]`, versus `[1, dead, dead]`, roots `[1, zero]`, where
`ph 1 2 = 1`).  So `undo_unique` needs `AddsAlive` (or injectivity of `ph` on the reachable
hashes); right after a valid block `AddsAlive` holds (`addsAlive_modify`). -/
theorem addsAlive_needed :
    ∃ (F'₁ F'₂ G₁ G₂ : Forest D) (d : UndoData D), (∀ a b : D, ph a b ≠ (zero : D)) ∧
      Equiv F'₁ F'₂ ∧ IsUndo F'₁ d G₁ ∧ IsUndo F'₂ d G₂ ∧ WF G₁ ∧ WF G₂ ∧
      AddsAlive F'₂ d.numAdds ∧ G₁.trees ≠ G₂.trees := by
  refine ⟨⟨[some ⟨1⟩, some ⟨2⟩, none, none]⟩, ⟨[some ⟨1⟩, none, none, some ⟨2⟩]⟩,
    ⟨[some ⟨1⟩, some ⟨2⟩, none]⟩, ⟨[some ⟨1⟩, none, none]⟩, ⟨1, [], [], [⟨1⟩, ⟨0⟩]⟩,
    ?_, ?_, ?_, ?_, ?_, ?_, ?_, ?_⟩
  · intro a b h; cases h
  · exact ⟨rfl, by decide +kernel⟩
  · refine ⟨?_, by decide +kernel⟩
    exact isUndoCore_of_killed rfl (by decide) (by intro h hh; cases hh) rfl
      (fun i h1 => absurd h1 (by simp))
  · refine ⟨?_, by decide +kernel⟩
    exact isUndoCore_of_killed rfl (by decide) (by intro h hh; cases hh) rfl
      (fun i h1 => absurd h1 (by simp))
  · decide
  · decide
  · intro i h1 h2
    have : i = 3 := by
      simp only [Forest.numLeaves, List.length_cons, List.length_nil] at h1 h2
      omega
    subst this
    exact ⟨_, rfl⟩
  · decide +kernel

/-! #### a three-block history -/

/-- block 1 adds 1,2,3 (trees `node 1 2` and `3`); block 2 deletes 3 — emptying the row-0
tree — and adds 4, which overwrites the empty root (one tree `node (node 1 2) 4`); block 3
deletes 1,2 — emptying a subtree — and adds 5,6 -/
def hist3 : List (Block Term) :=
  [([], [.atom 1, .atom 2, .atom 3]), ([.atom 3], [.atom 4]),
   ([.atom 1, .atom 2], [.atom 5, .atom 6])]

def E : Forest Term := Forest.empty

theorem E_wf : WF E := by decide
theorem hist3_valid : ValidHist E hist3 := by decide +kernel

/-- the empty root created by the deletion of block 2 … -/
example : ((run E (hist3.take 1)).delLeaves [.atom 3]).roots =
    [.pair (.atom 1) (.atom 2), .z] := by decide +kernel
/-- … is overwritten by the addition of block 2 -/
example : (run E (hist3.take 2)).roots = [.pair (.pair (.atom 1) (.atom 2)) (.atom 4)] := by
  decide +kernel
example : (run E hist3).slots =
    [none, none, none, some (.atom 4), some (.atom 5), some (.atom 6)] := by decide +kernel
example : (run E hist3).roots = [.atom 4, .pair (.atom 5) (.atom 6)] := by decide +kernel

/-- the undo data of the three blocks -/
example : undoDatas E hist3 =
    [⟨3, [], [], []⟩,
     ⟨1, [(0, 2)], [.atom 3], [.pair (.atom 1) (.atom 2), .atom 3]⟩,
     ⟨2, [(0, 0), (0, 1)], [.atom 1, .atom 2], [.pair (.pair (.atom 1) (.atom 2)) (.atom 4)]⟩] := by
  decide +kernel

/-- `isUndo_of_modify` on block 2 (deletion empties a tree, addition overwrites its root) -/
example : IsUndo (run E (hist3.take 2)) (undoDataOf (run E (hist3.take 1)) [.atom 3] [.atom 4])
    (run E (hist3.take 1)) :=
  isUndo_of_modify (run E (hist3.take 1)) [.atom 3] [.atom 4] (by decide +kernel)
    (by decide +kernel)

/-- `isUndo_of_modify` on block 3 -/
example : IsUndo (run E hist3)
    (undoDataOf (run E (hist3.take 2)) [.atom 1, .atom 2] [.atom 5, .atom 6])
    (run E (hist3.take 2)) :=
  isUndo_of_modify (run E (hist3.take 2)) [.atom 1, .atom 2] [.atom 5, .atom 6]
    (by decide +kernel) (by decide +kernel)

/-- `undo_modify` on block 2: the roots after undo are the previous roots, with the
overwritten root re-created -/
example : (undo (run E (hist3.take 2))
    (undoDataOf (run E (hist3.take 1)) [.atom 3] [.atom 4])).roots =
    [.pair (.atom 1) (.atom 2), .atom 3] := by
  have := (undo_modify (run E (hist3.take 1)) _ [.atom 3] [.atom 4] hph (by decide +kernel)
    (by decide +kernel) (by decide +kernel) (Equiv.refl _)).roots
  exact this.trans (by decide +kernel)

/-- the `k = 2` composition instance: undoing blocks 3 and 2 restores the state after block 1 -/
theorem undo_two : Equiv (undoMany (run E hist3) ((undoDatas E hist3).drop 1))
    (run E (hist3.take 1)) :=
  undo_last_k hph E E_wf hist3 hist3_valid (by decide +kernel) 2

example : (undoMany (run E hist3) ((undoDatas E hist3).drop 1)).roots =
    [.pair (.atom 1) (.atom 2), .atom 3] := by
  rw [undo_two.roots]; decide +kernel

example : (undoMany (run E hist3) ((undoDatas E hist3).drop 1)).posOf (.atom 3) = some (0, 2) := by
  rw [undo_two.posOf]; decide +kernel

/-- redo on another branch after the `k = 2` undo: a different block 2' -/
example : Equiv
    (run (undoMany (run E hist3) ((undoDatas E hist3).drop 1)) [([.atom 1], [.atom 7])])
    (run E (hist3.take 1 ++ [([.atom 1], [.atom 7])])) :=
  redo_after_undo hph E E_wf hist3 hist3_valid (by decide +kernel) 2 _ (by decide +kernel)

/-- `undo_unique` with two DIFFERENT representatives of the post-block forest: delete `1`, add
`9` in `S₁` and in `S₂` -/
example : Equiv S₁ S₂ := by
  have e : Equiv (S₁.modify [.atom 1] [.atom 9]) (S₂.modify [.atom 1] [.atom 9]) :=
    ⟨rfl, by decide +kernel⟩
  have hd : undoDataOf S₂ [.atom 1] [.atom 9] = undoDataOf S₁ [.atom 1] [.atom 9] := by
    decide +kernel
  have u₂ := isUndo_of_modify S₂ [.atom 1] [.atom 9] (by decide) (by decide)
  rw [hd] at u₂
  exact undo_unique _ _ S₁ S₂ _ hph (by decide) e (addsAlive_modify S₁ _ _)
    (addsAlive_modify S₂ _ _) (isUndo_of_modify S₁ [.atom 1] [.atom 9] (by decide) (by decide))
    u₂ (by decide) (by decide)

example : (S₁.modify [.atom 1] [.atom 9]).slots ≠ (S₂.modify [.atom 1] [.atom 9]).slots := by
  decide

end Example
end UtreexoVerif.Props.C06
