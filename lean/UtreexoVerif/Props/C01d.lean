/-
  C01 / C05 at the level of histories: the Lean model of `Stump.Update`, run along EVERY valid
  history with the canonical proofs of the specification forest, always accepts and ends in the
  stump (roots, leaf count) of the specification forest.

  * `stumpRun` — run `Stump.update` along a history, each block with `F.canon dels` of the
    current specification forest;
  * `stump_refines_history` — from the empty accumulator, for every valid history,
    `stumpRun = some ⟨(run empty hist).roots, numLeaves⟩`;
    `stump_refines_history_from` — the same from any forest satisfying the invariant `HistOK`;
  * `stump_batching_independent` — two valid histories with the same additions and the same
    deletion set leave the same stump;
  * `stump_update_eq` — what `Stump.update` returns on a valid block, as an equation in terms of
    `Stump.add` on the stump of `F.delLeaves dels`;
  * `stump_encoding_independent` (C05) — permuting the (leaf, target) pairs and appending junk to
    the proof does not change the result of `Stump.update` (stump AND update data).
-/
import UtreexoVerif.Props.C01c
import UtreexoVerif.Proofs.LiveLeaves

namespace UtreexoVerif.Props.C01
open UtreexoVerif Model Hasher Spec Spec.Forest
open UtreexoVerif.Proofs UtreexoVerif.Proofs.LiveLeaves
open UtreexoVerif.Props.C01b UtreexoVerif.Props.C11del

section
set_option linter.unusedSectionVars false
variable {H : Type} [DecidableEq H] [Hasher H]

/-- the targets as Go's `uint64` positions of a forest with `rows` rows -/
def encTargets (rows : Nat) (targets : List Pos) : List U64 :=
  targets.map fun p => BitVec.ofNat 64 (enc rows p)

theorem encTargets_eq (rows : Nat) (targets : List Pos) :
    encTargets rows targets = targets.map (fun p => encU rows p.1 p.2) := rfl

/-- **Run the Lean model of `Stump.Update` along a history.**  `F` is the current specification
forest; each block `(dels, adds)` is given the canonical proof `F.canon dels` (targets encoded
with `enc F.rows`).  `none` if `canon` is undefined or `update` does not return normally. -/
def stumpRun (nonZero : H) : Forest H → Stump H → List (List H × List H) → Option (Stump H)
  | _, s, [] => some s
  | F, s, b :: rest =>
    match F.canon b.1 with
    | none => none
    | some (targets, proof) =>
      match s.update nonZero b.1 b.2 (encTargets F.rows targets) proof with
      | .ok (s', _) => stumpRun nonZero (F.modify b.1 b.2) s' rest
      | _ => none

/-- every block deletes a duplicate-free list -/
def NodupDels (hist : List (Block H)) : Prop := ∀ b ∈ hist, b.1.Nodup

/-- the invariant of the induction: the live leaves of `F` are duplicate-free and non-zero, the
later additions are non-zero, pairwise distinct and disjoint from the live leaves, and the final
leaf count is at most `2^63`. -/
structure HistOK (F : Forest H) (hist : List (Block H)) : Prop where
  live_nodup : F.liveLeaves.Nodup
  live_nonzero : ∀ x ∈ F.liveLeaves, x ≠ (zero : H)
  adds_nodup : (allAdds hist).Nodup
  adds_new : ∀ x ∈ allAdds hist, x ∉ F.liveLeaves
  adds_nonzero : ∀ x ∈ allAdds hist, x ≠ (zero : H)
  small : F.numLeaves + (allAdds hist).length ≤ 2 ^ 63

/-- the invariant is preserved by a block -/
theorem HistOK.step {F : Forest H} {d a : List H} {rest : List (Block H)}
    (inv : HistOK F ((d, a) :: rest)) : HistOK (F.modify d a) rest := by
  obtain ⟨h1, h2, h3, h4, h5, h6⟩ := inv
  simp only [allAdds_cons] at h3 h4 h5 h6
  obtain ⟨ha, hr, hdisj⟩ := List.nodup_append.1 h3
  refine ⟨?_, ?_, hr, ?_, ?_, ?_⟩
  · exact liveLeaves_modify_nodup h1 d ha (fun x hx => h4 x (List.mem_append_left _ hx))
  · intro x hx
    rcases mem_liveLeaves_modify.1 hx with ⟨hx, _⟩ | hx
    · exact h2 x hx
    · exact h5 x (List.mem_append_left _ hx)
  · intro x hx hx'
    rcases mem_liveLeaves_modify.1 hx' with ⟨hx', _⟩ | hx'
    · exact h4 x (List.mem_append_right _ hx) hx'
    · exact hdisj x hx' x hx rfl
  · intro x hx
    exact h5 x (List.mem_append_right _ hx)
  · rw [numLeaves_modify]
    rw [List.length_append] at h6
    omega

theorem HistOK.forestOK {F : Forest H} {hist : List (Block H)} (inv : HistOK F hist)
    (hph : ∀ a b : H, ph a b ≠ (zero : H)) : ForestOK F :=
  ⟨by have := inv.small; omega, hph, inv.live_nonzero, inv.live_nodup⟩

/-- `Stump.add` from the stump of `G` ends in the stump of `G.addMany adds` -/
theorem addRefinesAt (nonZero : H) (G : Forest H) (adds : List H)
    (hph : ∀ a b : H, ph a b ≠ (zero : H)) (hlt : G.numLeaves + adds.length < 2 ^ 64)
    (hlive : ∀ y ∈ G.liveLeaves, y ≠ (zero : H)) (hadds : ∀ y ∈ adds, y ≠ (zero : H)) :
    AddRefinesAt nonZero G adds := by
  obtain ⟨upd, td, h⟩ := stump_add_refines nonZero G (stumpOf G) adds hph rfl rfl hlt hlive hadds
  refine ⟨_, h, ?_⟩
  simp only [stumpOf, C01b.numLeaves_addMany]

/-- **One valid block.**  (`ForestOK F`: at most `2^63` leaves, `ph` never zero, live leaves
non-zero and duplicate-free.) -/
theorem stump_update_block {F : Forest H} (ok : ForestOK F) (nonZero : H) {dels adds : List H}
    (hdn : dels.Nodup) (hdl : ∀ x ∈ dels, x ∈ F.liveLeaves)
    (hadds : ∀ y ∈ adds, y ≠ (zero : H)) (hlt : F.numLeaves + adds.length ≤ 2 ^ 63) :
    ∃ targets proof ud, F.canon dels = some (targets, proof) ∧
      (stumpOf F).update nonZero dels adds (encTargets F.rows targets) proof =
        .ok (stumpOf (F.modify dels adds), ud) := by
  obtain ⟨targets, proof, hc⟩ := C02.canon_defined ok.small hdl
  have haddAt : AddRefinesAt nonZero (F.delLeaves dels) adds :=
    addRefinesAt nonZero _ adds ok.ph_nonzero (by rw [CalcComplete.delLeaves_numLeaves]; omega)
      (fun y hy => ok.live_nonzero y (liveLeaves_delLeaves F dels y hy)) hadds
  obtain ⟨ud, h1, _, _⟩ := C01b.stump_update_refines ok [] hdn hc nonZero adds haddAt
  rw [List.append_nil] at h1
  exact ⟨targets, proof, ud, hc, h1⟩

/-- **`Stump` refines the specification along every valid history, from any forest satisfying
the invariant.**  Only `ph a b ≠ zero` is needed of the hash function. -/
theorem stump_refines_history_from (hph : ∀ a b : H, ph a b ≠ (zero : H)) (nonZero : H)
    (hist : List (Block H)) : ∀ (F : Forest H), HistOK F hist → LiveDels F hist → NodupDels hist →
      stumpRun nonZero F (stumpOf F) hist = some (stumpOf (run F hist)) := by
  induction hist with
  | nil => intro F _ _ _; rfl
  | cons b rest ih =>
    obtain ⟨d, a⟩ := b
    intro F inv hlive hdn
    have ok := inv.forestOK hph
    obtain ⟨targets, proof, ud, hc, hu⟩ := stump_update_block ok nonZero (dels := d) (adds := a)
      (hdn (d, a) (List.mem_cons_self ..)) hlive.1
      (fun y hy => inv.adds_nonzero y (by rw [allAdds_cons]; exact List.mem_append_left _ hy))
      (by have := inv.small; rw [allAdds_cons, List.length_append] at this; simp only at this; omega)
    simp only [stumpRun, hc, hu, run]
    exact ih _ inv.step hlive.2 (fun b hb => hdn b (List.mem_cons_of_mem _ hb))

/-! ### prefixes of a history -/

theorem liveDels_append {F : Forest H} {pre post : List (Block H)} :
    LiveDels F (pre ++ post) ↔ LiveDels F pre ∧ LiveDels (run F pre) post := by
  induction pre generalizing F with
  | nil => simp [LiveDels, run]
  | cons b r ih =>
    simp only [List.cons_append, LiveDels, run, ih, and_assoc]

/-- the invariant holds after any prefix of the history -/
theorem HistOK.run_prefix {pre post : List (Block H)} : ∀ {F : Forest H},
    HistOK F (pre ++ post) → HistOK (run F pre) post := by
  induction pre with
  | nil => intro F h; exact h
  | cons b r ih =>
    obtain ⟨d, a⟩ := b
    intro F h
    exact ih (HistOK.step (d := d) (a := a) h)

/-- every live leaf after a history was live at the start or was added -/
theorem liveLeaves_run_subset (hist : List (Block H)) : ∀ (F : Forest H),
    ∀ x ∈ (run F hist).liveLeaves, x ∈ F.liveLeaves ∨ x ∈ allAdds hist := by
  induction hist with
  | nil => intro F x hx; exact Or.inl hx
  | cons b r ih =>
    intro F x hx
    rw [allAdds_cons, List.mem_append]
    rcases ih _ x hx with h | h
    · rcases mem_liveLeaves_modify.1 h with ⟨h, _⟩ | h
      · exact Or.inl h
      · exact Or.inr (Or.inl h)
    · exact Or.inr (Or.inr h)

/-- the stump after a prefix of a valid run is the stump of the specification forest there -/
theorem stumpRun_prefix (hph : ∀ a b : H, ph a b ≠ (zero : H)) (nonZero : H)
    {pre post : List (Block H)} {F : Forest H} (inv : HistOK F (pre ++ post))
    (hlive : LiveDels F (pre ++ post)) (hdn : NodupDels (pre ++ post)) :
    stumpRun nonZero F (stumpOf F) pre = some (stumpOf (run F pre)) := by
  have inv' : HistOK F pre := by
    obtain ⟨h1, h2, h3, h4, h5, h6⟩ := inv
    rw [allAdds_append] at h3 h4 h5 h6
    refine ⟨h1, h2, (List.nodup_append.1 h3).1, fun x hx => h4 x (List.mem_append_left _ hx),
      fun x hx => h5 x (List.mem_append_left _ hx), ?_⟩
    rw [List.length_append] at h6
    omega
  exact stump_refines_history_from hph nonZero pre F inv' (liveDels_append.1 hlive).1
    (fun b hb => hdn b (List.mem_append_left _ hb))

theorem roots_empty : (Forest.empty : Forest H).roots = [] := by
  simp [Forest.roots, Forest.trees, Forest.empty, Forest.numLeaves, treeRows, treeRowsFrom]

theorem stumpOf_empty : stumpOf (Forest.empty : Forest H) = ⟨[], 0#64⟩ := by
  unfold stumpOf
  rw [roots_empty]
  rfl


/-- **`Stump` refines the specification along every valid history** (strong form: of the hash
function only `ph a b ≠ zero` is used; the added leaves need not differ from parent hashes). -/
theorem stump_refines_history' (hph : ∀ a b : H, ph a b ≠ (zero : H)) (nonZero : H)
    (hist : List (Block H)) (hlive : LiveDels Forest.empty hist) (hdn : NodupDels hist)
    (hnd : (allAdds hist).Nodup) (hleaf : ∀ x ∈ allAdds hist, x ≠ (zero : H))
    (hsmall : (allAdds hist).length ≤ 2 ^ 63) :
    stumpRun nonZero Forest.empty ⟨[], 0#64⟩ hist =
      some ⟨(run Forest.empty hist).roots, BitVec.ofNat 64 (run Forest.empty hist).numLeaves⟩ := by
  have inv : HistOK (Forest.empty : Forest H) hist :=
    ⟨List.nodup_nil, fun x hx => (by cases hx), hnd, fun x _ hx => (by cases hx), hleaf,
      (by show 0 + _ ≤ _; omega)⟩
  have := stump_refines_history_from hph nonZero hist Forest.empty inv hlive hdn
  rw [stumpOf_empty] at this
  exact this

/-- **C01 for `Stump`, every history.**  For every history from the empty accumulator in which
every block deletes a duplicate-free list of currently live leaves and appends leaves that are
non-zero, not of the form `ph a b`, and pairwise distinct across the whole history, with at most
`2^63` additions in total: the Lean model of `Stump.Update`, fed the canonical proofs of the
specification, accepts every block and ends with exactly the roots and the leaf count of the
specification forest `run empty hist`. -/
theorem stump_refines_history (nz : NZ H) (nonZero : H) (_hnz : nonZero ≠ (zero : H))
    (hist : List (Block H)) (hlive : LiveDels Forest.empty hist) (hdn : NodupDels hist)
    (hnd : (allAdds hist).Nodup)
    (hleaf : ∀ x ∈ allAdds hist, x ≠ (zero : H) ∧ ∀ a b : H, x ≠ ph a b)
    (hsmall : (allAdds hist).length ≤ 2 ^ 63) :
    stumpRun nonZero Forest.empty ⟨[], 0#64⟩ hist =
      some ⟨(run Forest.empty hist).roots, BitVec.ofNat 64 (run Forest.empty hist).numLeaves⟩ :=
  stump_refines_history' nz.nonzero nonZero hist hlive hdn hnd (fun x hx => (hleaf x hx).1) hsmall

/-- a valid history from the empty accumulator (the hypotheses of `stump_refines_history`) -/
structure ValidHistory (hist : List (Block H)) : Prop where
  live : LiveDels (Forest.empty : Forest H) hist
  dels_nodup : NodupDels hist
  adds_nodup : (allAdds hist).Nodup
  adds_leaf : ∀ x ∈ allAdds hist, x ≠ (zero : H) ∧ ∀ a b : H, x ≠ ph a b
  small : (allAdds hist).length ≤ 2 ^ 63

/-- **Batching independence for `Stump`**: two valid histories with the same concatenated
additions and the same set of deletions leave the SAME stump behind (and both runs accept). -/
theorem stump_batching_independent (nz : NZ H) (nonZero : H) (hnz : nonZero ≠ (zero : H))
    (h1 h2 : List (Block H)) (v1 : ValidHistory h1) (v2 : ValidHistory h2)
    (hadds : allAdds h1 = allAdds h2) (hdels : ∀ x, x ∈ allDels h1 ↔ x ∈ allDels h2) :
    stumpRun nonZero Forest.empty ⟨[], 0#64⟩ h1 = stumpRun nonZero Forest.empty ⟨[], 0#64⟩ h2 ∧
    stumpRun nonZero Forest.empty ⟨[], 0#64⟩ h1 =
      some ⟨(run Forest.empty h1).roots, BitVec.ofNat 64 (run Forest.empty h1).numLeaves⟩ := by
  have e1 := stump_refines_history nz nonZero hnz h1 v1.live v1.dels_nodup v1.adds_nodup
    v1.adds_leaf v1.small
  have e2 := stump_refines_history nz nonZero hnz h2 v2.live v2.dels_nodup v2.adds_nodup
    v2.adds_leaf v2.small
  have e := (batching_independent h1 h2 v1.adds_nodup v1.live v2.live hadds hdels).1
  refine ⟨?_, e1⟩
  rw [e1, e2, e]

/-! ### C05: encoding independence of a whole `Update` -/

/-- **What `Stump.Update` returns on a block with a canonical deletion proof** (any junk appended
to the proof): `del` succeeds, and the outcome is that of `Stump.add` run on the stump of
`F.delLeaves L`, with `PrevNumLeaves` the old leaf count and `NewDel` as specified. -/
theorem stump_update_eq {F : Forest H} (ok : ForestOK F) {L : List H} {targets : List Pos}
    {proofHashes : List H} (junk : List H) (hL : L.Nodup)
    (hc : F.canon L = some (targets, proofHashes)) (nonZero : H) (adds : List H) :
    Stump.update nonZero (stumpOf F) L adds (encTargets F.rows targets) (proofHashes ++ junk) =
      match Stump.add nonZero (stumpOf (F.delLeaves L)) adds with
      | .ok (s2, newAdd, td) =>
        .ok (s2, { toDestroy := td, prevNumLeaves := BitVec.ofNat 64 F.numLeaves,
                   newDel := newDelSpec F L targets, newAdd := newAdd })
      | .err => .err
      | .panic => .panic
      | .hang => .hang := by
  unfold Stump.update Stump.updateSt
  rw [encTargets_eq, stump_del_refines ok junk hL hc, stumpOf_delLeaves]
  simp only
  cases Stump.add nonZero ⟨(F.delLeaves L).roots, BitVec.ofNat 64 F.numLeaves⟩ adds <;> rfl

theorem delT_congr {L L' : List H} (h : ∀ l, l ∈ L' ↔ l ∈ L) (t : CTree H) :
    CalcComplete.delT L' t = CalcComplete.delT L t := by
  induction t with
  | leaf x =>
    simp only [CalcComplete.delT]
    by_cases hx : x ∈ L
    · simp [hx, (h x).2 hx]
    · have : x ∉ L' := fun h' => hx ((h x).1 h')
      simp [hx, this]
  | node a b iha ihb => simp only [CalcComplete.delT, iha, ihb]

/-- `NewDel` depends only on the SET of deleted leaves and the SET of targets -/
theorem newDelSpec_congr (F : Forest H) {L L' : List H} {t t' : List Pos}
    (hL : ∀ l, l ∈ L' ↔ l ∈ L) (ht : ∀ x, x ∈ t' ↔ x ∈ t) :
    newDelSpec F L' t' = newDelSpec F L t := by
  have hp : pathNodes F t' = pathNodes F t := C02.pathSet_congr F ht
  unfold newDelSpec
  rw [hp]
  apply List.map_congr_left
  intro p _
  unfold hashAfter
  cases subtreeAt F p with
  | none => rfl
  | some s => simp only [delT_congr hL s]

theorem zip_map_snd {α β : Type} (f : α → β) : ∀ (l : List α) (x : α × β),
    x ∈ l.zip (l.map f) → x.2 = f x.1 := by
  intro l
  induction l with
  | nil => intro x hx; cases hx
  | cons a r ih =>
    intro x hx
    rw [List.map_cons, List.zip_cons_cons, List.mem_cons] at hx
    rcases hx with rfl | hx
    · rfl
    · exact ih x hx

/-- **C05 for `Stump.Update`: encoding independence.**  Within a block whose deletions `dels`
(duplicate-free) have the canonical proof `(targets, proof)`, replace the request by ANY
permutation `pairs` of the (leaf, target) pairs and append ARBITRARY hashes to the proof: the
whole result of `Stump.Update` — new stump and every field of the update data, additions
included, or the same failure of `add` — is unchanged.  (`adds` is arbitrary.) -/
theorem stump_encoding_independent {F : Forest H} (ok : ForestOK F) {dels : List H}
    {targets : List Pos} {proof : List H} (hdn : dels.Nodup)
    (hc : F.canon dels = some (targets, proof)) (nonZero : H) (adds : List H)
    (pairs : List (H × Pos)) (hperm : pairs.Perm (dels.zip targets)) (junk : List H) :
    (stumpOf F).update nonZero (pairs.map (·.1)) adds (encTargets F.rows (pairs.map (·.2)))
        (proof ++ junk) =
      (stumpOf F).update nonZero dels adds (encTargets F.rows targets) proof := by
  obtain ⟨ht, _, _, _⟩ := SpecPlan.canon_spec hc
  have hlen : dels.length ≤ targets.length := by rw [ht, List.length_map]; exact Nat.le_refl _
  have hlen' : targets.length ≤ dels.length := by rw [ht, List.length_map]; exact Nat.le_refl _
  have hp1 : (pairs.map (·.1)).Perm dels := by
    have := hperm.map (·.1)
    rwa [List.map_fst_zip hlen] at this
  have hp2 : (pairs.map (·.2)).Perm targets := by
    have := hperm.map (·.2)
    rwa [List.map_snd_zip hlen'] at this
  have hdn' : (pairs.map (·.1)).Nodup := hp1.nodup_iff.2 hdn
  have hmem : ∀ l, l ∈ pairs.map (·.1) ↔ l ∈ dels := fun l => hp1.mem_iff
  have hc' := C02.canon_perm hmem hc
  have htg : (pairs.map (·.1)).map (fun l => (F.posOf l).getD (0, 0)) = pairs.map (·.2) := by
    rw [List.map_map]
    apply List.map_congr_left
    intro x hx
    have hx' : x ∈ dels.zip (dels.map (fun l => (F.posOf l).getD (0, 0))) := by
      rw [← ht]; exact hperm.mem_iff.1 hx
    exact (zip_map_snd _ dels x hx').symm
  rw [htg] at hc'
  have r := stump_update_eq ok [] hdn hc nonZero adds
  rw [List.append_nil] at r
  rw [stump_update_eq ok junk hdn' hc' nonZero adds, r, delLeaves_congr F hmem,
    newDelSpec_congr F hmem (fun x => hp2.mem_iff)]

end

/-! ### non-vacuity -/

namespace Example

/-- block 1 adds leaves 1,2,3 (trees `{1,2}` and `{3}`); block 2 deletes leaf 3 — the tree on
row 0 is emptied, its root becomes the all-zero hash — and adds leaves 4,5: leaf 4 overwrites
the empty root (`add` skips the all-zero root and merges leaf 4 with `{1,2}`); block 3 deletes
leaves 1 and 4 (in two different subtrees of the 4-slot tree, leaving only leaf 2 there) and adds
leaf 6. -/
def histC : List (Block T) :=
  [([], [.leaf 1, .leaf 2, .leaf 3]), ([.leaf 3], [.leaf 4, .leaf 5]),
   ([.leaf 1, .leaf 4], [.leaf 6])]

/-- after block 2's deletion the stump really holds an all-zero root … -/
example : (Forest.delLeaves (run Forest.empty (histC.take 1)) [T.leaf 3]).roots =
    [T.node (.leaf 1) (.leaf 2), T.z] := by decide +kernel

/-- … and the model, simply evaluated along the history, ends in the specification's stump -/
example : stumpRun (T.leaf 0) Forest.empty ⟨[], 0#64⟩ histC =
    some ⟨[T.leaf 2, T.node (.leaf 5) (.leaf 6)], 6#64⟩ := by decide +kernel

theorem histC_valid : ValidHistory histC where
  live := by
    simp [histC, LiveDels, Forest.liveLeaves, Forest.modify, Forest.delLeaves, Forest.addMany,
      Forest.empty]
  dels_nodup := by
    intro b hb
    simp only [histC, List.mem_cons, List.not_mem_nil, or_false] at hb
    rcases hb with rfl | rfl | rfl <;> decide
  adds_nodup := by decide
  adds_leaf := by
    intro x hx
    have : x = .leaf 1 ∨ x = .leaf 2 ∨ x = .leaf 3 ∨ x = .leaf 4 ∨ x = .leaf 5 ∨ x = .leaf 6 := by
      simpa [histC, allAdds] using hx
    rcases this with rfl | rfl | rfl | rfl | rfl | rfl <;>
      exact ⟨fun h => (by cases h), fun a b h => (by cases h)⟩
  small := by
    have : (allAdds histC).length = 6 := by decide
    omega

/-- `stump_refines_history` instantiated on that history -/
example : stumpRun (T.leaf 0) Forest.empty ⟨[], 0#64⟩ histC =
    some ⟨(run Forest.empty histC).roots, BitVec.ofNat 64 (run Forest.empty histC).numLeaves⟩ :=
  stump_refines_history cr.toNZ (T.leaf 0) (by intro h; cases h) histC histC_valid.live
    histC_valid.dels_nodup histC_valid.adds_nodup histC_valid.adds_leaf histC_valid.small

/-- the same operations batched differently (all additions first, deletions later and in another
order) -/
def histD : List (Block T) :=
  [([], [.leaf 1]), ([], [.leaf 2, .leaf 3, .leaf 4, .leaf 5, .leaf 6]), ([.leaf 4], []),
   ([.leaf 3, .leaf 1], [])]

theorem histD_valid : ValidHistory histD where
  live := by
    simp [histD, LiveDels, Forest.liveLeaves, Forest.modify, Forest.delLeaves, Forest.addMany,
      Forest.empty]
  dels_nodup := by
    intro b hb
    simp only [histD, List.mem_cons, List.not_mem_nil, or_false] at hb
    rcases hb with rfl | rfl | rfl | rfl <;> decide
  adds_nodup := by decide
  adds_leaf := by
    intro x hx
    have : x = .leaf 1 ∨ x = .leaf 2 ∨ x = .leaf 3 ∨ x = .leaf 4 ∨ x = .leaf 5 ∨ x = .leaf 6 := by
      simpa [histD, allAdds] using hx
    rcases this with rfl | rfl | rfl | rfl | rfl | rfl <;>
      exact ⟨fun h => (by cases h), fun a b h => (by cases h)⟩
  small := by
    have : (allAdds histD).length = 6 := by decide
    omega

/-- `stump_batching_independent` applies to the two batchings -/
example : stumpRun (T.leaf 0) Forest.empty ⟨[], 0#64⟩ histC =
    stumpRun (T.leaf 0) Forest.empty ⟨[], 0#64⟩ histD :=
  (stump_batching_independent cr.toNZ (T.leaf 0) (by intro h; cases h) histC histD histC_valid
    histD_valid (by decide)
    (by intro x; simp [histC, histD, allDels]; constructor <;>
          (intro h; rcases h with h | h | h <;> simp [h]))).1

/-- and so does the model when simply run on the second batching -/
example : stumpRun (T.leaf 0) Forest.empty ⟨[], 0#64⟩ histD =
    some ⟨[T.leaf 2, T.node (.leaf 5) (.leaf 6)], 6#64⟩ := by decide +kernel

/-! encoding independence on the five-slot forest `F5 = [1, dead, 3, 4, 5]` -/

theorem F5_ok : ForestOK F5 :=
  ⟨by decide +kernel, cr.nonzero, by
      intro y hy
      have e : F5.liveLeaves = [T.leaf 1, T.leaf 3, T.leaf 4, T.leaf 5] := by decide +kernel
      rw [e] at hy
      intro hz; subst hz; simp at hy,
    by decide +kernel⟩

theorem F5_canon : F5.canon [T.leaf 4, .leaf 1] = some ([(0, 3), (1, 0)], [T.leaf 3]) := by
  decide +kernel

/-- the request in the other order, with two junk hashes appended to the proof, and additions:
the same `Update` result -/
example : (stumpOf F5).update (T.leaf 0) [T.leaf 1, .leaf 4] [T.leaf 6, .leaf 7]
      (encTargets F5.rows [(1, 0), (0, 3)]) ([T.leaf 3] ++ [T.leaf 98, T.leaf 99]) =
    (stumpOf F5).update (T.leaf 0) [T.leaf 4, .leaf 1] [T.leaf 6, .leaf 7]
      (encTargets F5.rows [(0, 3), (1, 0)]) [T.leaf 3] :=
  stump_encoding_independent F5_ok (by decide) F5_canon (T.leaf 0) [T.leaf 6, .leaf 7]
    [(T.leaf 1, (1, 0)), (T.leaf 4, (0, 3))] (by decide) [T.leaf 98, T.leaf 99]

/-- … and that result is a successful update (not a common failure) -/
example : ((stumpOf F5).update (T.leaf 0) [T.leaf 1, .leaf 4] [T.leaf 6, .leaf 7]
      (encTargets F5.rows [(1, 0), (0, 3)]) [T.leaf 3, T.leaf 98, T.leaf 99]).toOption.map (·.1) =
    some (stumpOf (F5.modify [T.leaf 1, .leaf 4] [T.leaf 6, .leaf 7])) := by decide +kernel

end Example

end UtreexoVerif.Props.C01
