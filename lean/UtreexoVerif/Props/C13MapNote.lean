/-
  A note for `Props/C13Map.lean`: why its byte-level theorems (hypothesis `HashBytesOK H`: a hash IS
  32 bytes on the wire) and its closure theorems (hypothesis `CR H`: the parent hash is injective and
  never zero — the standing hypothesis of the C09 preservation theorems) are never combined in one
  statement.  The two hypotheses CONTRADICT each other (pigeonhole), so any theorem assuming both
  would be vacuous.  (`CR` is satisfiable — term-algebra hasher, `MapSInv.Example.crT` —, `HashBytesOK`
  is satisfiable — `Props.C13.okBytes32` —, only the conjunction is not.)
-/
import Mathlib.Data.Fintype.Vector
import Mathlib.SetTheory.Cardinal.Finite
import Mathlib.SetTheory.Cardinal.NatCard
import UtreexoVerif.Proofs.Serial
import UtreexoVerif.Spec.View

namespace UtreexoVerif.Props.C13Map
open UtreexoVerif Model.Serial Hasher Proofs.Serial

instance : Finite U8 := Finite.of_injective (fun b : U8 => b.toFin) (fun _ _ h => BitVec.eq_of_toFin_eq h)

/-- **`CR H` and `HashBytesOK H` are incompatible**: a type whose elements are determined by 32 bytes
is finite, and a finite type with two different elements (`zero` and `ph zero zero`) has no injective
pairing `H × H → H` -/
theorem cr_hashBytesOK_incompatible {H : Type} [Hasher H] [HashBytes H] (cr : CR H) (ok : HashBytesOK H) : False := by
  have hinj : Function.Injective (fun h : H => (⟨toBytes h, ok.len h⟩ : List.Vector U8 32)) := by
    intro a b hab
    have h1 : toBytes a = toBytes b := congrArg Subtype.val hab
    rw [← ok.rt a, ← ok.rt b, h1]
  have : Finite H := Finite.of_injective (β := List.Vector U8 32) _ hinj
  have hp : Function.Injective (fun p : H × H => ph p.1 p.2) := by
    intro p q h
    exact Prod.ext (cr.inj _ _ _ _ h).1 (cr.inj _ _ _ _ h).2
  have hcard := Nat.card_le_card_of_injective _ hp
  rw [Nat.card_prod] at hcard
  have : Nontrivial H := ⟨⟨ph zero zero, zero, cr.nonzero _ _⟩⟩
  have h2 : 1 < Nat.card H := Finite.one_lt_card
  have h3 : Nat.card H ≤ 1 := by simpa using hcard
  omega

end UtreexoVerif.Props.C13Map

section Axioms
#print axioms UtreexoVerif.Props.C13Map.cr_hashBytesOK_incompatible
end Axioms
