/-
  C11 — the update data of a WHOLE valid block, all fields at once.

  `stump_update_data`: for a stump holding the roots of a specification forest `F`, a block
  `(dels, adds)` with the canonical deletion proof (arbitrary hashes appended), `Stump.Update`
  returns the stump of `F.modify dels adds` and an `UpdateData` with

  * `PrevNumLeaves` = the leaf count of `F`;
  * `NewDel`        = `newDelSpec F dels targets` (Props/C11del.lean);
  * `NewAdd`, `ToDestroy` = as specified by `Props.C11.stump_add_updateData` for the additions
    applied to the forest after the deletions, `F.delLeaves dels` (`AddDataSpec`).
-/
import UtreexoVerif.Props.C11
import UtreexoVerif.Props.C01d

namespace UtreexoVerif.Props.C11
open UtreexoVerif Model Hasher Spec Spec.Forest
open Proofs Proofs.FinalPos Proofs.StumpAdd Proofs.StumpAddPos Proofs.LiveLeaves
open UtreexoVerif.Props.C01 UtreexoVerif.Props.C01b UtreexoVerif.Props.C11del

section
set_option linter.unusedSectionVars false
variable {H : Type} [DecidableEq H] [Hasher H]

/-- **specification of `NewAdd*` and `ToDestroy`** for the additions `adds` applied to a forest
`G`: verbatim the clauses of `stump_add_updateData_statement`.  `upd` contains exactly the pairs
of `NewAddSpec` (every added leaf and every node that became a child of a parent created by the
additions, with final position and hash), strictly sorted by position, no hash twice; `td` lists
the root positions of exactly the all-zero roots merged over, in ascending rows. -/
def AddDataSpec (G : Forest H) (adds : List H) (upd : HP H) (td : List U64) : Prop :=
  let S := G.slots ++ adds.map some
  let n := G.numLeaves
  let R := forestRows (n + adds.length)
  (∀ p h, (p, h) ∈ upd ↔ ∃ pos : Pos, p = encU R pos.1 pos.2 ∧ NewAddSpec n S (pos, h)) ∧
  upd.Pairwise (fun a b => a.1 < b.1) ∧ (upd.map (·.2)).Nodup ∧
  ∃ L : List Nat, td = L.map (fun h => encU R h (2 * (n / 2 ^ (h + 1)))) ∧ AscFrom 0 L ∧
    ∀ h, h ∈ L ↔ (n.testBit h = true ∧ chunkHash G.slots h (2 * (n / 2 ^ (h + 1))) = zero ∧
      (n / 2 ^ (h + 1) + 1) * 2 ^ (h + 1) ≤ n + adds.length)

/-- the add theorem in terms of `AddDataSpec` -/
theorem stump_add_dataSpec (cr : CR H) (nonZero : H) (hnz : nonZero ≠ (zero : H)) (G : Forest H)
    (adds : List H) (hlt : G.numLeaves + adds.length ≤ 2 ^ 63)
    (hnd : (G.addMany adds).liveLeaves.Nodup)
    (hleaf : ∀ x ∈ (G.addMany adds).liveLeaves, x ≠ (zero : H) ∧ ∀ a b : H, x ≠ ph a b) :
    ∃ upd td, (stumpOf G).add nonZero adds = .ok (stumpOf (G.addMany adds), upd, td) ∧
      AddDataSpec G adds upd td := by
  obtain ⟨upd, td, h1, h2⟩ := stump_add_updateData nonZero G (stumpOf G) adds cr hnz rfl rfl hlt hnd
    (fun x hx => hleaf x (mem_liveLeaves.2 hx))
  refine ⟨upd, td, ?_, h2⟩
  rw [h1]
  simp only [stumpOf, C01b.numLeaves_addMany]

/-- **the forest after the deletions satisfies the hypotheses of the add theorem** when `F`
satisfies those of the block theorem -/
theorem addMany_delLeaves_ok {F : Forest H} {dels adds : List H}
    (hnd : F.liveLeaves.Nodup)
    (hleaf : ∀ x ∈ F.liveLeaves, x ≠ (zero : H) ∧ ∀ a b : H, x ≠ ph a b)
    (hadds : ∀ x ∈ adds, x ≠ (zero : H) ∧ ∀ a b : H, x ≠ ph a b)
    (haddsnd : adds.Nodup) (hnew : ∀ x ∈ adds, x ∈ F.liveLeaves → x ∈ dels) :
    ((F.delLeaves dels).addMany adds).liveLeaves.Nodup ∧
    ∀ x ∈ ((F.delLeaves dels).addMany adds).liveLeaves, x ≠ (zero : H) ∧ ∀ a b : H, x ≠ ph a b := by
  constructor
  · rw [liveLeaves_addMany_eq, List.nodup_append]
    refine ⟨liveLeaves_delLeaves_nodup hnd dels, haddsnd, ?_⟩
    intro a ha b hb hab
    subst hab
    obtain ⟨h1, h2⟩ := mem_liveLeaves_delLeaves.1 ha
    exact h2 (hnew a hb h1)
  · intro x hx
    rw [liveLeaves_addMany_eq, List.mem_append] at hx
    rcases hx with hx | hx
    · exact hleaf x (mem_liveLeaves_delLeaves.1 hx).1
    · exact hadds x hx

/-- **C11: the update data of a whole valid block.**

Hypotheses: `CR H`; `nonZero ≠ zero` (Go's `Hash{1}` placeholder); the stump holds the roots and
leaf count of `F`; at most `2^63` leaves after the block; the live leaves of `F` are pairwise
distinct, non-zero and not parent hashes; the additions are pairwise distinct, non-zero, not
parent hashes, and differ from every leaf that stays alive (a leaf deleted in this very block
may be added again); the deletions `dels` are duplicate-free and `(targets, proof)` is their
canonical proof (so they are live); `junk` is appended to the proof. -/
theorem stump_update_data (cr : CR H) (nonZero : H) (hnz : nonZero ≠ (zero : H))
    (F : Forest H) (s : Stump H) (dels adds : List H) (targets : List Pos) (proof junk : List H)
    (hr : s.roots = F.roots) (hn : s.numLeaves = BitVec.ofNat 64 F.numLeaves)
    (hlt : F.numLeaves + adds.length ≤ 2 ^ 63)
    (hnd : F.liveLeaves.Nodup)
    (hleaf : ∀ x ∈ F.liveLeaves, x ≠ (zero : H) ∧ ∀ a b : H, x ≠ ph a b)
    (hadds : ∀ x ∈ adds, x ≠ (zero : H) ∧ ∀ a b : H, x ≠ ph a b)
    (haddsnd : adds.Nodup) (hnew : ∀ x ∈ adds, x ∈ F.liveLeaves → x ∈ dels)
    (hdn : dels.Nodup) (hc : F.canon dels = some (targets, proof)) :
    ∃ ud : UpdateData H,
      s.update nonZero dels adds (encTargets F.rows targets) (proof ++ junk) =
        .ok (⟨(F.modify dels adds).roots, BitVec.ofNat 64 (F.modify dels adds).numLeaves⟩, ud) ∧
      ud.prevNumLeaves = BitVec.ofNat 64 F.numLeaves ∧
      ud.newDel = newDelSpec F dels targets ∧
      AddDataSpec (F.delLeaves dels) adds ud.newAdd ud.toDestroy := by
  have hs : s = stumpOf F := by
    cases s
    simp only at hr hn
    subst hr hn
    rfl
  subst hs
  have ok : ForestOK F := ⟨by omega, cr.nonzero, fun l hl => (hleaf l hl).1, hnd⟩
  obtain ⟨g1, g2⟩ := addMany_delLeaves_ok (dels := dels) hnd hleaf hadds haddsnd hnew
  obtain ⟨upd, td, hadd, hspec⟩ := stump_add_dataSpec cr nonZero hnz (F.delLeaves dels) adds
    (by rw [CalcComplete.delLeaves_numLeaves]; exact hlt) g1 g2
  refine ⟨{ toDestroy := td, prevNumLeaves := BitVec.ofNat 64 F.numLeaves,
            newDel := newDelSpec F dels targets, newAdd := upd }, ?_, rfl, rfl, hspec⟩
  rw [stump_update_eq ok junk hdn hc nonZero adds, hadd]
  rfl

/-- the same for a block of a valid history: additions new with respect to ALL live leaves -/
theorem stump_update_data' (cr : CR H) (nonZero : H) (hnz : nonZero ≠ (zero : H))
    (F : Forest H) (dels adds : List H) (targets : List Pos) (proof : List H)
    (hlt : F.numLeaves + adds.length ≤ 2 ^ 63)
    (hnd : F.liveLeaves.Nodup)
    (hleaf : ∀ x ∈ F.liveLeaves, x ≠ (zero : H) ∧ ∀ a b : H, x ≠ ph a b)
    (hadds : ∀ x ∈ adds, x ≠ (zero : H) ∧ ∀ a b : H, x ≠ ph a b)
    (haddsnd : adds.Nodup) (hnew : ∀ x ∈ adds, x ∉ F.liveLeaves)
    (hdn : dels.Nodup) (hc : F.canon dels = some (targets, proof)) :
    ∃ ud : UpdateData H,
      (stumpOf F).update nonZero dels adds (encTargets F.rows targets) proof =
        .ok (stumpOf (F.modify dels adds), ud) ∧
      ud.prevNumLeaves = BitVec.ofNat 64 F.numLeaves ∧
      ud.newDel = newDelSpec F dels targets ∧
      AddDataSpec (F.delLeaves dels) adds ud.newAdd ud.toDestroy := by
  have := stump_update_data cr nonZero hnz F (stumpOf F) dels adds targets proof [] rfl rfl hlt hnd
    hleaf hadds haddsnd (fun x hx hx' => absurd hx' (hnew x hx)) hdn hc
  rw [List.append_nil] at this
  exact this

/-- **C11 along every valid history**: at every block `(d, a)` of a valid history from the empty
accumulator (`pre` before it, `post` after it), the stump reached by running the model along
`pre` is the stump of the specification forest `F = run empty pre`, the canonical proof of `d`
exists, and `Stump.Update` returns the stump of the next specification forest together with
exactly the specified update data. -/
theorem stump_update_data_history (cr : CR H) (nonZero : H) (hnz : nonZero ≠ (zero : H))
    (pre post : List (Block H)) (d a : List H) (v : ValidHistory (pre ++ (d, a) :: post)) :
    ∃ (targets : List Pos) (proof : List H) (ud : UpdateData H),
      stumpRun nonZero Forest.empty ⟨[], 0#64⟩ pre = some (stumpOf (run Forest.empty pre)) ∧
      (run Forest.empty pre).canon d = some (targets, proof) ∧
      (stumpOf (run Forest.empty pre)).update nonZero d a
          (encTargets (run Forest.empty pre).rows targets) proof =
        .ok (stumpOf (run Forest.empty (pre ++ [(d, a)])), ud) ∧
      ud.prevNumLeaves = BitVec.ofNat 64 (run Forest.empty pre).numLeaves ∧
      ud.newDel = newDelSpec (run Forest.empty pre) d targets ∧
      AddDataSpec ((run Forest.empty pre).delLeaves d) a ud.newAdd ud.toDestroy := by
  have inv0 : HistOK (Forest.empty : Forest H) (pre ++ (d, a) :: post) :=
    ⟨List.nodup_nil, fun x hx => (by cases hx), v.adds_nodup, fun x _ hx => (by cases hx),
      fun x hx => (v.adds_leaf x hx).1, (by show 0 + _ ≤ _; have := v.small; omega)⟩
  have invF := inv0.run_prefix
  have hliveF := (liveDels_append.1 v.live).2
  have hpre := stumpRun_prefix cr.nonzero nonZero inv0 v.live v.dels_nodup
  rw [stumpOf_empty] at hpre
  generalize hF : run Forest.empty pre = F at *
  have hsmall : F.numLeaves ≤ 2 ^ 63 := by have := invF.small; omega
  obtain ⟨targets, proof, hc⟩ := C02.canon_defined hsmall hliveF.1
  have hleafF : ∀ x ∈ F.liveLeaves, x ≠ (zero : H) ∧ ∀ a b : H, x ≠ ph a b := by
    intro x hx
    rw [← hF] at hx
    rcases liveLeaves_run_subset pre _ x hx with h | h
    · cases h
    · exact v.adds_leaf x (by rw [allAdds_append]; exact List.mem_append_left _ h)
  have hadds : ∀ x ∈ a, x ≠ (zero : H) ∧ ∀ p q : H, x ≠ ph p q := by
    intro x hx
    exact v.adds_leaf x (by
      rw [allAdds_append, allAdds_cons]
      exact List.mem_append_right _ (List.mem_append_left _ hx))
  have hand := invF.adds_nodup
  rw [allAdds_cons] at hand
  have hsm := invF.small
  rw [allAdds_cons, List.length_append] at hsm
  obtain ⟨ud, h1, h2, h3, h4⟩ := stump_update_data' cr nonZero hnz F d a targets proof
    (by simp only at hsm; omega) invF.live_nodup hleafF hadds (List.nodup_append.1 hand).1
    (fun x hx => invF.adds_new x (by rw [allAdds_cons]; exact List.mem_append_left _ hx))
    (v.dels_nodup (d, a) (by simp)) hc
  refine ⟨targets, proof, ud, hpre, hc, ?_, h2, h3, h4⟩
  rw [h1, run_append, hF]
  rfl

/-! ### the same for a hash that is NOT collision-free

`CR H` is replaced by `NZ H` (parent hashes are never the zero hash) and the FINITE hypothesis
`NodesDistinct` on the forest AFTER the block (no non-zero hash sits at two of its places;
`Proofs/NodesUnique.lean`).  The leaves need not be "not parent hashes", the additions need not
be new: all of this is subsumed by `NodesDistinct`. -/

/-- the add theorem in terms of `AddDataSpec`, from `NZ` and `NodesDistinct` -/
theorem stump_add_dataSpec_nd (nz : NZ H) (nonZero : H) (hnz : nonZero ≠ (zero : H)) (G : Forest H)
    (adds : List H) (hlt : G.numLeaves + adds.length ≤ 2 ^ 63)
    (hleaf : ∀ x ∈ (G.addMany adds).liveLeaves, x ≠ (zero : H))
    (hd : NodesDistinct (G.addMany adds)) :
    ∃ upd td, (stumpOf G).add nonZero adds = .ok (stumpOf (G.addMany adds), upd, td) ∧
      AddDataSpec G adds upd td := by
  obtain ⟨upd, td, h1, h2⟩ := stump_add_updateData_nd nz nonZero G (stumpOf G) adds hnz rfl rfl hlt
    (fun x hx => hleaf x (mem_liveLeaves.2 hx)) hd
  refine ⟨upd, td, ?_, h2⟩
  rw [h1]
  simp only [stumpOf, C01b.numLeaves_addMany]

/-- **C11, the update data of a whole valid block, for a hash that is not collision-free**:
`NZ H`, and `NodesDistinct (F.modify dels adds)` for the forest after the block. -/
theorem stump_update_data_nd (nz : NZ H) (nonZero : H) (hnz : nonZero ≠ (zero : H))
    (F : Forest H) (s : Stump H) (dels adds : List H) (targets : List Pos) (proof junk : List H)
    (hr : s.roots = F.roots) (hn : s.numLeaves = BitVec.ofNat 64 F.numLeaves)
    (hlt : F.numLeaves + adds.length ≤ 2 ^ 63)
    (hnd : F.liveLeaves.Nodup)
    (hleaf : ∀ x ∈ F.liveLeaves, x ≠ (zero : H)) (hadds : ∀ x ∈ adds, x ≠ (zero : H))
    (hdn : dels.Nodup) (hc : F.canon dels = some (targets, proof))
    (hd : NodesDistinct (F.modify dels adds)) :
    ∃ ud : UpdateData H,
      s.update nonZero dels adds (encTargets F.rows targets) (proof ++ junk) =
        .ok (⟨(F.modify dels adds).roots, BitVec.ofNat 64 (F.modify dels adds).numLeaves⟩, ud) ∧
      ud.prevNumLeaves = BitVec.ofNat 64 F.numLeaves ∧
      ud.newDel = newDelSpec F dels targets ∧
      AddDataSpec (F.delLeaves dels) adds ud.newAdd ud.toDestroy := by
  have hs : s = stumpOf F := by
    cases s
    simp only at hr hn
    subst hr hn
    rfl
  subst hs
  have ok : ForestOK F := ⟨by omega, nz.nonzero, hleaf, hnd⟩
  have g2 : ∀ x ∈ ((F.delLeaves dels).addMany adds).liveLeaves, x ≠ (zero : H) := by
    intro x hx
    rw [liveLeaves_addMany_eq, List.mem_append] at hx
    rcases hx with hx | hx
    · exact hleaf x (mem_liveLeaves_delLeaves.1 hx).1
    · exact hadds x hx
  obtain ⟨upd, td, hadd, hspec⟩ := stump_add_dataSpec_nd nz nonZero hnz (F.delLeaves dels) adds
    (by rw [CalcComplete.delLeaves_numLeaves]; exact hlt) g2 hd
  refine ⟨{ toDestroy := td, prevNumLeaves := BitVec.ofNat 64 F.numLeaves,
            newDel := newDelSpec F dels targets, newAdd := upd }, ?_, rfl, rfl, hspec⟩
  rw [stump_update_eq ok junk hdn hc nonZero adds, hadd]
  rfl

/-- **C11 along every valid history, for a hash that is not collision-free**: as
`stump_update_data_history`, from `NZ H` and `NodesDistinct` of the specification forest AFTER
the block in question. -/
theorem stump_update_data_history_nd (nz : NZ H) (nonZero : H) (hnz : nonZero ≠ (zero : H))
    (pre post : List (Block H)) (d a : List H) (v : ValidHistory (pre ++ (d, a) :: post))
    (hd : NodesDistinct (run Forest.empty (pre ++ [(d, a)]))) :
    ∃ (targets : List Pos) (proof : List H) (ud : UpdateData H),
      stumpRun nonZero Forest.empty ⟨[], 0#64⟩ pre = some (stumpOf (run Forest.empty pre)) ∧
      (run Forest.empty pre).canon d = some (targets, proof) ∧
      (stumpOf (run Forest.empty pre)).update nonZero d a
          (encTargets (run Forest.empty pre).rows targets) proof =
        .ok (stumpOf (run Forest.empty (pre ++ [(d, a)])), ud) ∧
      ud.prevNumLeaves = BitVec.ofNat 64 (run Forest.empty pre).numLeaves ∧
      ud.newDel = newDelSpec (run Forest.empty pre) d targets ∧
      AddDataSpec ((run Forest.empty pre).delLeaves d) a ud.newAdd ud.toDestroy := by
  have inv0 : HistOK (Forest.empty : Forest H) (pre ++ (d, a) :: post) :=
    ⟨List.nodup_nil, fun x hx => (by cases hx), v.adds_nodup, fun x _ hx => (by cases hx),
      fun x hx => (v.adds_leaf x hx).1, (by show 0 + _ ≤ _; have := v.small; omega)⟩
  have invF := inv0.run_prefix
  have hliveF := (liveDels_append.1 v.live).2
  have hpre := stumpRun_prefix nz.nonzero nonZero inv0 v.live v.dels_nodup
  rw [stumpOf_empty] at hpre
  rw [run_append] at hd
  generalize hF : run Forest.empty pre = F at *
  have hsmall : F.numLeaves ≤ 2 ^ 63 := by have := invF.small; omega
  obtain ⟨targets, proof, hc⟩ := C02.canon_defined hsmall hliveF.1
  have hleafF : ∀ x ∈ F.liveLeaves, x ≠ (zero : H) := by
    intro x hx
    rw [← hF] at hx
    rcases liveLeaves_run_subset pre _ x hx with h | h
    · cases h
    · exact (v.adds_leaf x (by rw [allAdds_append]; exact List.mem_append_left _ h)).1
  have hadds : ∀ x ∈ a, x ≠ (zero : H) := by
    intro x hx
    exact (v.adds_leaf x (by
      rw [allAdds_append, allAdds_cons]
      exact List.mem_append_right _ (List.mem_append_left _ hx))).1
  have hsm := invF.small
  rw [allAdds_cons, List.length_append] at hsm
  obtain ⟨ud, h1, h2, h3, h4⟩ := stump_update_data_nd nz nonZero hnz F (stumpOf F) d a targets proof []
    rfl rfl (by simp only at hsm; omega) invF.live_nodup hleafF hadds
    (v.dels_nodup (d, a) (by simp)) hc hd
  rw [List.append_nil] at h1
  refine ⟨targets, proof, ud, hpre, hc, ?_, h2, h3, h4⟩
  rw [h1, run_append, hF]
  rfl

end

/-! ### non-vacuity -/

namespace Example
open UtreexoVerif.Props.C01.Example

/-- three live leaves: trees `{1,2}` (row 1) and `{3}` (row 0) -/
def F3' : Forest T := ⟨[some (.leaf 1), some (.leaf 2), some (.leaf 3)]⟩

theorem canon3 : F3'.canon [T.leaf 3, .leaf 1] = some ([(0, 2), (0, 0)], [T.leaf 2]) := by
  decide +kernel

theorem leafT (n : Nat) : T.leaf n ≠ (zero : T) ∧ ∀ a b : T, T.leaf n ≠ ph a b :=
  ⟨fun h => (by cases h), fun a b h => (by cases h)⟩

/-- the hypotheses of `stump_update_data` are satisfiable: the block deletes leaf 3 (emptying the
tree on row 0, whose root becomes all-zero) and leaf 1, and adds leaves 4 and 5 (leaf 4 merges
over the empty root); one junk hash is appended to the proof -/
theorem block3 : ∃ ud : UpdateData T,
    (Stump.mk F3'.roots 3#64).update (T.leaf 0) [T.leaf 3, .leaf 1] [T.leaf 4, .leaf 5]
        (encTargets F3'.rows [(0, 2), (0, 0)]) ([T.leaf 2] ++ [T.leaf 99]) =
      .ok (⟨(F3'.modify [T.leaf 3, .leaf 1] [T.leaf 4, .leaf 5]).roots,
            BitVec.ofNat 64 (F3'.modify [T.leaf 3, .leaf 1] [T.leaf 4, .leaf 5]).numLeaves⟩, ud) ∧
    ud.prevNumLeaves = BitVec.ofNat 64 F3'.numLeaves ∧
    ud.newDel = newDelSpec F3' [T.leaf 3, .leaf 1] [(0, 2), (0, 0)] ∧
    AddDataSpec (F3'.delLeaves [T.leaf 3, .leaf 1]) [T.leaf 4, .leaf 5] ud.newAdd ud.toDestroy :=
  stump_update_data cr (T.leaf 0) (by intro h; cases h) F3' ⟨F3'.roots, 3#64⟩ _ _ _ _ [T.leaf 99]
    rfl (by decide) (by decide) (by decide)
    (by intro x hx
        have : x = .leaf 1 ∨ x = .leaf 2 ∨ x = .leaf 3 := by simpa [F3', Forest.liveLeaves] using hx
        rcases this with rfl | rfl | rfl <;> exact leafT _)
    (by intro x hx
        have : x = .leaf 4 ∨ x = .leaf 5 := by simpa using hx
        rcases this with rfl | rfl <;> exact leafT _)
    (by decide)
    (by intro x hx hx'
        have h1 : x = .leaf 4 ∨ x = .leaf 5 := by simpa using hx
        have h2 : x = .leaf 1 ∨ x = .leaf 2 ∨ x = .leaf 3 := by
          simpa [F3', Forest.liveLeaves] using hx'
        rcases h1 with rfl | rfl <;> rcases h2 with h | h | h <;> cases h)
    (by decide) canon3

/-- the model, simply evaluated on that block: the new stump, -/
example : ((Stump.mk F3'.roots 3#64).update (T.leaf 0) [T.leaf 3, .leaf 1] [T.leaf 4, .leaf 5]
      (encTargets F3'.rows [(0, 2), (0, 0)]) [T.leaf 2, T.leaf 99]).toOption.map (·.1) =
    some ⟨[T.node (.leaf 2) (.leaf 4), .leaf 5], 5#64⟩ := by decide +kernel

/-- `ToDestroy` (the empty root at position 2) and `PrevNumLeaves`, -/
example : ((Stump.mk F3'.roots 3#64).update (T.leaf 0) [T.leaf 3, .leaf 1] [T.leaf 4, .leaf 5]
      (encTargets F3'.rows [(0, 2), (0, 0)]) [T.leaf 2, T.leaf 99]).toOption.map
      (fun r => (r.2.toDestroy, r.2.prevNumLeaves)) = some ([2#64], 3#64) := by decide +kernel

/-- `NewDel` (positions in the 2-row forest before the block) -/
example : ((Stump.mk F3'.roots 3#64).update (T.leaf 0) [T.leaf 3, .leaf 1] [T.leaf 4, .leaf 5]
      (encTargets F3'.rows [(0, 2), (0, 0)]) [T.leaf 2, T.leaf 99]).toOption.map (·.2.newDel) =
    some [(0#64, T.z), (2#64, T.z), (4#64, T.leaf 2)] := by decide +kernel

/-- and `NewAdd` (positions in the 3-row forest after the block) -/
example : ((Stump.mk F3'.roots 3#64).update (T.leaf 0) [T.leaf 3, .leaf 1] [T.leaf 4, .leaf 5]
      (encTargets F3'.rows [(0, 2), (0, 0)]) [T.leaf 2, T.leaf 99]).toOption.map (·.2.newAdd) =
    some [(4#64, T.leaf 5), (8#64, T.leaf 2), (9#64, T.leaf 4)] := by decide +kernel

/-- the specified `NewDel` evaluates to the same list -/
example : newDelSpec F3' [T.leaf 3, .leaf 1] [(0, 2), (0, 0)] =
    [(0#64, T.z), (2#64, T.z), (4#64, T.leaf 2)] := by decide +kernel

/-- `stump_update_data_history` at the second block of the three-block history `histC` of
`Props/C01d.lean` (delete leaf 3, add leaves 4 and 5) -/
example : ∃ (targets : List Pos) (proof : List T) (ud : UpdateData T),
    stumpRun (T.leaf 0) Forest.empty ⟨[], 0#64⟩ (histC.take 1) =
      some (stumpOf (run Forest.empty (histC.take 1))) ∧
    (run Forest.empty (histC.take 1)).canon [T.leaf 3] = some (targets, proof) ∧
    (stumpOf (run Forest.empty (histC.take 1))).update (T.leaf 0) [T.leaf 3] [T.leaf 4, .leaf 5]
        (encTargets (run Forest.empty (histC.take 1)).rows targets) proof =
      .ok (stumpOf (run Forest.empty (histC.take 1 ++ [([T.leaf 3], [T.leaf 4, .leaf 5])])), ud) ∧
    ud.prevNumLeaves = BitVec.ofNat 64 (run Forest.empty (histC.take 1)).numLeaves ∧
    ud.newDel = newDelSpec (run Forest.empty (histC.take 1)) [T.leaf 3] targets ∧
    AddDataSpec ((run Forest.empty (histC.take 1)).delLeaves [T.leaf 3]) [T.leaf 4, .leaf 5]
      ud.newAdd ud.toDestroy :=
  stump_update_data_history cr (T.leaf 0) (by intro h; cases h) (histC.take 1)
    [([T.leaf 1, .leaf 4], [T.leaf 6])] [T.leaf 3] [T.leaf 4, .leaf 5] histC_valid


end Example

end UtreexoVerif.Props.C11
