/-
  The pointer forest (`Pollard`: pollard.go, polnode.go), heap model `Model/PollardHeap.lean` —
  part C: **`Undo`** (`undoSingleAdd` loop, `undoEmptyRoots`, `undoDels` with `deTwinPolNode` and
  `undoSingleDel`).

  ## What is proved here (all heaps / forests / blocks, no bounds except `NumLeaves < 2^63`)

  * (a) `undoEmptyRoots_refines`: from a heap representing the pre-addition forest up to the empty
    roots the additions skipped (`AbsE`, the state `undoAdds_refines` reaches), `undoEmptyRoots`
    — `numRoots`, `deTwin`, `markEmptied` (`DetectOffset` of the deleted root positions),
    `padRoots`, the insertion loop — restores every missing empty root: the heap represents
    `F.delLeaves dels` exactly;
  * (b) `undoSingleDel_root_refines`: the ROOT branch of `undoSingleDel` (`*sibling, *parent =
    *parent, *sibling`, two-level `updateAunt`, `swapNieces`, `NodeMap` re-pointing) on one
    represented tree; with `undoSingleDel_aunt_refines` (part B) both branches:
    `undoSingleDel_refines` at forest level;
  * (c) `undoDels_prefix_refines` (`undoDelsAlloc`, the sort, `deTwinPolNode` in lockstep with
    `deTwin`: the detached trees are the maximal fully-deleted sub-trees at their positions) and
    `undoDels_refines` (the reverse-order loop: the `DelSeq` argument read backwards);
  * **`undo_abs`** / **`undo_refines`**: `Modify` of a valid block followed by `Undo` with the
    block's data and the previous roots succeeds and the heap represents LITERALLY the previous
    forest `F` (not only up to `Spec.Equiv`); `NumLeaves`, `NumDels` and the key set of `NodeMap`
    are restored; `modify_undo_observables`: `GetRoots`, `GetHash`, `GetLeafPosition`, `Prove` answer
    as before the block.

  ## Statements that were open and are FALSE as stated

  * `Props.PollardHeapB.undo_rest_statement` lacks `F.liveLeaves.Nodup` (a forest with a duplicated
    leaf: deleting "the" leaf kills both copies, `Undo` re-creates one): `undo_rest_statement_false`;
    with that hypothesis it is `undo_rest`.
  * `Props.PollardHeap.undo_refines_statement` does not constrain `dels` (a "deleted" hash that
    is not in the forest and no target: `Modify` succeeds and changes nothing, `Undo` returns the
    length-mismatch error): `undo_refines_statement_false`.  Neither is a defect of the Go code.

  ## Hypotheses of `undo_refines`

  Those of `modify_refines`, except that the targets are listed in the order of `delHashes`
  (`Undo` pairs `targets[i]` with `delHashes[i]`; `Modify` does not care about the order).
  Nothing is asked of the ADDED leaves beyond `modify_refines` (fresh, non-zero, distinct):
  `undoSingleAdd` deletes the `NodeMap` key of every root it splits, which can hit an added leaf that
  carries the hash of such a root — a little early, but all added leaves are removed anyway
  (`AbsEW`, `Proofs/PollardHeapUndoAddsW.lean`).
-/
import UtreexoVerif.Proofs.PollardHeapUndoLoop
import UtreexoVerif.Proofs.PollardHeapUndoAddsW
import UtreexoVerif.Props.PollardHeapB
set_option linter.unusedSectionVars false
set_option linter.unusedVariables false
set_option linter.unusedSimpArgs false

namespace UtreexoVerif.Props.PollardHeapC
open UtreexoVerif UtreexoVerif.GoInt UtreexoVerif.Model UtreexoVerif.Model.PollardHeap UtreexoVerif.Spec Hasher
open UtreexoVerif.Proofs UtreexoVerif.Proofs.PollardHeap UtreexoVerif.Proofs.SpecSubs UtreexoVerif.Proofs.CalcGeo
open UtreexoVerif.Proofs.Movement

variable {H : Type} [DecidableEq H] [Hasher H]

/-! ### (a) `undoEmptyRoots` -/

/-- **`undoEmptyRoots`**: the heap represents `F.delLeaves D` up to missing empty roots (the state
after the `undoSingleAdd` loop); `undoEmptyRoots` with the block's targets and the previous roots
re-inserts the missing empty roots (those the additions skipped or merged away): the heap
represents `F.delLeaves D`; `NodeMap`, `NumLeaves`, `NumDels` are untouched. -/
theorem undoEmptyRoots_refines (hph : ∀ a b : H, ph a b ≠ (zero : H)) {p : Pollard H} {F : Forest H}
    {D : List H} (a : AbsE p (F.delLeaves D)) (hok : LeavesOK F) (hn : F.numLeaves < 2 ^ 63)
    (hnd : F.liveLeaves.Nodup) (hD : D.Nodup) (hlive : ∀ d ∈ D, d ∈ F.liveLeaves) :
    ∃ hp' rs', undoEmptyRoots ((D.map (fun l => (F.posOf l).getD (0, 0))).map (E F.rows)) F.roots p =
        (.ok (), ⟨hp', p.nodeMap, rs', p.numLeaves, p.numDels, p.full⟩) ∧
      Abs ⟨hp', p.nodeMap, rs', p.numLeaves, p.numDels, p.full⟩ (F.delLeaves D) :=
  undoEmptyRoots_abs hph a hok hn hnd hD hlive

/-! ### (b) `undoSingleDel` -/

/-- **`undoSingleDel`, branch "the original parent IS a root"** (one represented tree): the root
`r` carries `b` (which moved into the root when its sibling died), `nd` is the root of the detached
represented tree `a`, `getNode` of the parent position returns the root.  `undoSingleDel` succeeds;
the root represents `node a b` (resp. `node b a`); the top node of `b` is the freshly allocated
node, `NodeMap` is re-pointed when `b` is a leaf. -/
theorem undoSingleDel_root_refines {hp : Heap H} {nm : List (H × Nat)} {rs : List Nat} {nl ndl : U64}
    {full : Bool} {r : Nat} {b : CTree H} {fb : List Nat} {lb : List (H × Nat)}
    {nd : Nat} {a : CTree H} {fa : List Nat} {la : List (H × Nat)}
    (hR : RootRepr hp r b fb lb) (hRn : RootRepr hp nd a fa la)
    (ndp : (r :: fb ++ nd :: fa).Nodup) (pos : U64) (par : Ptr)
    (hget : getNode (Parent pos (TreeRows nl)) ⟨hp, nm, rs, nl, ndl, full⟩ =
      (.ok (some r, some r, par), ⟨hp, nm, rs, nl, ndl, full⟩)) :
    ∃ hp' : Heap H,
      undoSingleDel nd pos ⟨hp, nm, rs, nl, ndl, full⟩ =
        (.ok (), ⟨hp', mapMoveTo nm b.hash hp.size, rs, nl, ndl, full⟩) ∧
      RootRepr hp' r (if isLeftNiece pos then .node a b else .node b a)
        (if isLeftNiece pos then nd :: hp.size :: (fa ++ fb) else hp.size :: nd :: (fb ++ fa))
        (if isLeftNiece pos then la ++ relabelTop b hp.size lb else relabelTop b hp.size lb ++ la) ∧
      (∀ j, j ∉ r :: fb ++ nd :: fa → j ≠ hp.size → hp'[j]? = hp[j]?) ∧ hp'.size = hp.size + 1 :=
  undoSingleDel_tree_root hR hRn ndp pos par hget

/-- **`undoSingleDel` at forest level** (both branches): the heap represents `G.delLeaves a.leaves`
and, detached, the tree `a` (item `it`, among other pending items); `it.pos` is the position of
the non-root node of `G` carrying `a`.  `undoSingleDel` succeeds and the heap represents `G`. -/
theorem undoSingleDel_refines {p : Pollard H} {G : Forest H} {others : List (PItem H)} {it : PItem H}
    (hA : AbsP p (G.delLeaves it.t.leaves) (others ++ [it])) (hn : G.numLeaves < 2 ^ 63)
    (hGnd : G.liveLeaves.Nodup) {R : Nat} (hs : SubAtT G R it.pos it.t)
    (hnr : isRootPos G.numLeaves it.pos = false)
    (hsep : ∀ e ∈ p.nodeMap, ∀ u v : H, e.1 ≠ ph u v) :
    ∃ hp' nm', undoSingleDel it.nd (E G.rows it.pos) p =
        (.ok (), { p with heap := hp', nodeMap := nm' }) ∧
      AbsP { p with heap := hp', nodeMap := nm' } G others ∧
      nm'.map (·.1) = p.nodeMap.map (·.1) ∧ p.heap.size ≤ hp'.size :=
  undoSingleDel_absP hA hn hGnd hs hnr hsep

/-! ### (c) `deTwinPolNode` and the loop of `undoDels` -/

/-- **the first half of `undoDels`** (`undoDelsAlloc`, the sort, `deTwinPolNode`): the result is a
list of DETACHED represented trees (`Pend`), fresh nodes only (the old heap is untouched), sitting —
strictly ascending — exactly at the positions of the maximal fully-deleted sub-trees of `F`
(`IsDT`), each carrying the sub-tree of `F` at its position; `NodeMap` has gained exactly their
leaves. -/
theorem undoDels_prefix_refines {F : Forest H} {D : List H} (hn : F.numLeaves < 2 ^ 63)
    (hnd : F.liveLeaves.Nodup) (hD : D.Nodup) (hlive : ∀ d ∈ D, d ∈ F.liveLeaves)
    (hp : Heap H) (nm : List (H × Nat)) (rs : List Nat) (nl ndl : U64) (full : Bool)
    (hmk : (nm.map (·.1)).Nodup) (hfresh : ∀ d ∈ D, d ∉ nm.map (·.1)) :
    ∃ (hp1 hp' : Heap H) (nm' : List (H × Nat)) (pn0 : List NP) (its : List (PItem H)),
      undoDelsAlloc ((D.map (fun l => (F.posOf l).getD (0, 0))).map (E F.rows)) D
          ⟨hp, nm, rs, nl, ndl, full⟩ = (.ok pn0, ⟨hp1, nm', rs, nl, ndl, full⟩) ∧
      deTwinPolNode (sortBy (fun x : NP => x.2) pn0) (H8 F.rows) ⟨hp1, nm', rs, nl, ndl, full⟩ =
        (.ok (its.map (PItem.np F.rows)), ⟨hp', nm', rs, nl, ndl, full⟩) ∧
      Pend hp' its ∧ (pendOwned its).Nodup ∧ (∀ i ∈ pendOwned its, hp.size ≤ i) ∧
      (∀ j, j < hp.size → hp'[j]? = hp[j]?) ∧ hp.size ≤ hp'.size ∧
      (nm'.map (·.1)).Nodup ∧ (∀ e, e ∈ nm' ↔ e ∈ nm ∨ e ∈ pendLeaves its) ∧
      (∀ k, k ∈ nm'.map (·.1) ↔ k ∈ D ∨ k ∈ nm.map (·.1)) ∧
      (its.map (·.pos)).Pairwise Sorted.PLt ∧ (∀ T, T ∈ its.map (·.pos) ↔ IsDT F D T) ∧
      (∀ it ∈ its, ∃ R, SubAtT F R it.pos it.t) ∧
      ProofUpdateDeTwin.Inv F D (its.map (·.pos)) :=
  undoDels_prefix_spec hn hnd hD hlive hp nm rs nl ndl full hmk hfresh

/-- **`undoDels`**: on a heap representing `F.delLeaves D` (`D` distinct live leaves of `F`, the
targets their positions in `F` in the order of `D`), `undoDels` succeeds and the heap represents
`F`; `NumDels` decreases by the number of deleted leaves. -/
theorem undoDels_refines {p : Pollard H} {F : Forest H} {D : List H} (hA : Abs p (F.delLeaves D))
    (hok : LeavesOK F) (hn : F.numLeaves < 2 ^ 63) (hnd : F.liveLeaves.Nodup) (hD : D.Nodup)
    (hlive : ∀ d ∈ D, d ∈ F.liveLeaves) :
    ∃ hp' nm' rs', undoDels ((D.map (fun l => (F.posOf l).getD (0, 0))).map (E F.rows)) D p =
        (.ok (), ⟨hp', nm', rs', p.numLeaves, p.numDels - BitVec.ofNat 64 D.length, p.full⟩) ∧
      Abs ⟨hp', nm', rs', p.numLeaves, p.numDels - BitVec.ofNat 64 D.length, p.full⟩ F :=
  undoDels_abs hA hok hn hnd hD hlive

/-! ### what was open: `undo_rest_statement`, corrected -/

/-- `Props.PollardHeapB.undo_rest_statement` with the hypothesis it lacks (`F.liveLeaves.Nodup`):
from a heap representing `F.delLeaves dels` up to missing empty roots, `undoEmptyRoots` followed
by `undoDels` yield a heap representing `F` -/
theorem undo_rest (hph : ∀ a b : H, ph a b ≠ (zero : H)) (p : Pollard H) (F : Forest H)
    (dels : List H) (targets : List U64) (a : AbsE p (F.delLeaves dels)) (hok : LeavesOK F)
    (hn : F.numLeaves < 2 ^ 63) (hFnd : F.liveLeaves.Nodup) (hnd : dels.Nodup)
    (hlive : ∀ d ∈ dels, d ∈ F.liveLeaves)
    (ht : targets = (dels.map (fun l => (F.posOf l).getD (0, 0))).map (E F.rows)) :
    ∃ p'', (do undoEmptyRoots targets F.roots; undoDels targets dels) p = (.ok (), p'') ∧ Abs p'' F ∧
      p''.numLeaves = p.numLeaves ∧ p''.numDels = p.numDels - BitVec.ofNat 64 dels.length ∧
      p''.full = p.full := by
  subst ht
  obtain ⟨hp2, rs2, e2, a2⟩ := undoEmptyRoots_abs hph a hok hn hFnd hnd hlive
  obtain ⟨hp3, nm3, rs3, e3, a3⟩ := undoDels_abs a2 hok hn hFnd hnd hlive
  simp only at e3 a3
  refine ⟨_, ?_, a3, rfl, rfl, rfl⟩
  simp only [bind_apply, e2]
  exact e3

/-! ### `Undo` -/

/-- **`Undo` refines the specification**: on a heap representing the forest after a block
(`F.delLeaves dels` plus the additions `adds`), `Undo` with the number of additions, the block's
targets (the positions of `dels` in `F`, in the order of `dels`), the deleted hashes and the
previous roots returns without error, panic or fuel exhaustion, and the heap represents `F` —
literally, not only up to `Spec.Equiv`.  `NumLeaves` decreases by the number of additions,
`NumDels` by the number of deletions. -/
theorem undo_abs (hph : ∀ a b : H, ph a b ≠ (zero : H)) {p' : Pollard H} {F : Forest H}
    {dels adds : List H} (hA' : Abs p' (F.modify dels adds)) (hok : LeavesOK F)
    (hfreshA : ∀ x ∈ adds, x ∉ F.liveLeaves) (hn : F.numLeaves + adds.length < 2 ^ 63)
    (hFnd : F.liveLeaves.Nodup) (hnd : dels.Nodup) (hlive : ∀ d ∈ dels, d ∈ F.liveLeaves) :
    ∃ p'', PollardHeap.undo (BitVec.ofNat 64 adds.length)
        ((dels.map (fun l => (F.posOf l).getD (0, 0))).map (E F.rows)) dels F.roots p' = (.ok (), p'') ∧
      Abs p'' F ∧ p''.full = p'.full ∧
      p''.numLeaves = p'.numLeaves - BitVec.ofNat 64 adds.length ∧
      p''.numDels = p'.numDels - BitVec.ofNat 64 dels.length := by
  -- `NodeMap` up to the added leaves: the other keys are live leaves of `F`, no parent hash among them
  have hnm : (F.modify dels adds).numLeaves < 2 ^ 64 := by
    unfold Forest.modify
    rw [numLeaves_addMany, numLeaves_delLeaves]; omega
  have aW : AbsEW p' ((F.delLeaves dels).addMany adds) adds := by
    apply Abs.toAbsEW hA' hnm adds
    intro x hx hxA u v
    rcases LiveLeaves.mem_liveLeaves_modify.1 hx with h | h
    · exact (hok x h.1).2 u v
    · exact absurd h hxA
  obtain ⟨hp1, nm1, rs1, e1, a1W⟩ := undoAdds_absEW adds.length adds (F.delLeaves dels) p' rfl
    (fun x hx => hx) aW (by rw [numLeaves_delLeaves]; exact hn)
  have a1 := a1W.toAbsE (by rw [numLeaves_delLeaves]; omega)
    (fun x hx hxA => hfreshA x hxA (LiveLeaves.mem_liveLeaves_delLeaves.1 hx).1)
  obtain ⟨hp2, rs2, e2, a2⟩ := undoEmptyRoots_abs hph a1 hok (by omega) hFnd hnd hlive
  simp only at e2 a2
  obtain ⟨hp3, nm3, rs3, e3, a3⟩ := undoDels_abs a2 hok (by omega) hFnd hnd hlive
  simp only at e3 a3
  refine ⟨_, ?_, a3, rfl, rfl, rfl⟩
  unfold PollardHeap.undo
  have hlt : (BitVec.ofNat 64 adds.length).toNat < 2 ^ 63 := by
    rw [BitVec.toNat_ofNat]
    exact Nat.lt_of_le_of_lt (Nat.mod_le _ _) (by omega)
  have hmod : (BitVec.ofNat 64 adds.length).toNat = adds.length := by
    rw [BitVec.toNat_ofNat]; exact Nat.mod_eq_of_lt (by omega)
  have hlt' : adds.length < 2 ^ 63 := by omega
  simp only [bind_apply, hlt, if_true, hmod, hlt', e1, e2]
  exact e3

/-- two duplicate-free lists with the same elements are permutations of each other -/
theorem perm_of_nodup_of_mem_iff {α : Type} [DecidableEq α] {l1 l2 : List α} (h1 : l1.Nodup)
    (h2 : l2.Nodup) (h : ∀ x, x ∈ l1 ↔ x ∈ l2) : l1.Perm l2 := by
  rw [List.perm_iff_count]
  intro x
  rw [List.nodup_iff_count] at h1 h2
  have c1 := h1 x
  have c2 := h2 x
  by_cases hx : x ∈ l1
  · have p1 := List.count_pos_iff.2 hx
    have p2 := List.count_pos_iff.2 ((h x).1 hx)
    omega
  · have z1 := List.count_eq_zero.2 hx
    have z2 := List.count_eq_zero.2 (fun h' => hx ((h x).2 h'))
    omega

/-- the keys of `NodeMap` of a heap representing `F` are exactly the live leaves of `F`, once each -/
theorem abs_keys {p : Pollard H} {F : Forest H} (a : Abs p F) (hn : F.numLeaves < 2 ^ 64) :
    (p.nodeMap.map (·.1)).Nodup ∧ ∀ x, x ∈ p.nodeMap.map (·.1) ↔ x ∈ F.liveLeaves := by
  obtain ⟨_, owned, lv, h1, _, h3⟩ := a
  refine ⟨h3.1, fun x => ?_⟩
  rw [← h1.liveLeaves hn]
  simp only [List.mem_map]
  constructor
  · rintro ⟨e, he, rfl⟩; exact ⟨e, (h3.2 e).1 he, rfl⟩
  · rintro ⟨e, he, rfl⟩; exact ⟨e, (h3.2 e).2 he, rfl⟩

theorem abs_liveLeaves_nodup {p : Pollard H} {F : Forest H} (a : Abs p F) (hn : F.numLeaves < 2 ^ 64) :
    F.liveLeaves.Nodup := by
  obtain ⟨owned, lv, h1, _, _, h4, _⟩ := a.toAbsD.repr
  rw [← h1.liveLeaves hn]; exact h4

/-- **`Modify` then `Undo` restores the forest** (C06/C08 for the pointer forest): on a full pollard
representing `F` (below `2^63` leaves, no live leaf all-zero or a parent hash), for every valid
block — distinct live deletions `dels` with their positions as targets IN THE ORDER OF `dels`,
distinct fresh non-zero additions none of which is a parent hash — `Modify` succeeds, the heap
represents `F.modify dels adds`, and `Undo` with the number of additions, the block's targets and
hashes and the previous roots `F.roots` succeeds and the heap represents `F` again (literally);
`NumLeaves`, `NumDels` and the key set of `NodeMap` are those before the block. -/
theorem undo_refines (hph : ∀ a b : H, ph a b ≠ (zero : H)) (p : Pollard H) (F : Forest H)
    (dels : List H) (targets : List U64) (adds : List (H × Bool))
    (hA : Abs p F) (hfull : p.full = true) (hok : LeavesOK F)
    (hn : F.numLeaves + adds.length < 2 ^ 63)
    (hnd : dels.Nodup) (hlive : ∀ d ∈ dels, d ∈ F.liveLeaves)
    (htargets : ∀ ts, dels.mapM F.posOf = some ts →
      targets = ts.map (fun q => BitVec.ofNat 64 (enc F.rows q)))
    (hpos : (dels.mapM F.posOf).isSome)
    (hadd : (adds.map (·.1)).Nodup) (hfresh : ∀ e ∈ adds, e.1 ∉ F.liveLeaves ∧ e.1 ≠ zero) :
    ∃ p' p'', PollardHeap.modify adds dels targets p = (.ok (), p') ∧
      Abs p' (F.modify dels (adds.map (·.1))) ∧
      PollardHeap.undo (BitVec.ofNat 64 adds.length) targets dels F.roots p' = (.ok (), p'') ∧
      Abs p'' F ∧ p''.full = true ∧ p''.numLeaves = p.numLeaves ∧ p''.numDels = p.numDels ∧
      (p''.nodeMap.map (·.1)).Perm (p.nodeMap.map (·.1)) := by
  obtain ⟨p', h1, h2, h3, h4, h5⟩ := PollardHeapB.modify_refines hph p F dels dels targets adds hA hfull
    hok hn hnd hlive (List.Perm.refl _) htargets hpos hadd hfresh
  obtain ⟨ts, hts⟩ := Option.isSome_iff_exists.1 hpos
  have e1 := PollardHeapB.mapM_posOf dels ts hts
  have e2 := htargets ts hts
  have etargets : targets = (dels.map (fun l => (F.posOf l).getD (0, 0))).map (E F.rows) := by
    rw [e2, e1]; rfl
  have hlen : targets.length = dels.length := by rw [etargets]; simp
  have hFnd : F.liveLeaves.Nodup := abs_liveLeaves_nodup hA (by omega)
  obtain ⟨p'', hu, a'', f'', nl'', ndl''⟩ := undo_abs hph (adds := adds.map (·.1)) h2 hok
    (fun x hx => by
      obtain ⟨e, he, rfl⟩ := List.mem_map.1 hx
      exact (hfresh e he).1)
    (by simpa using hn) hFnd hnd hlive
  rw [List.length_map, ← etargets] at hu
  refine ⟨p', p'', h1, h2, hu, a'', by rw [f'', h3], ?_, ?_, ?_⟩
  · apply BitVec.eq_of_toNat_eq
    rw [a''.numLeaves, hA.numLeaves]
  · rw [ndl'', h4, hlen, BitVec.add_sub_cancel]
  · obtain ⟨k1, k2⟩ := abs_keys a'' (by omega)
    obtain ⟨k3, k4⟩ := abs_keys hA (by omega)
    exact perm_of_nodup_of_mem_iff k1 k3 (fun x => by rw [k2 x, k4 x])

/-- **`Modify` then `Undo` restores every observable**: after the round trip `GetRoots`, `GetHash`
(every position), `GetLeafPosition` (every hash) and `Prove` (every duplicate-free request of live
leaves) return what they returned before the block — the answers the specification forest `F`
gives (`getRoots_refines`, `getHash_refines`, `getLeafPosition_refines`, `prove_refines`). -/
theorem modify_undo_observables (hph : ∀ a b : H, ph a b ≠ (zero : H)) (p : Pollard H) (F : Forest H)
    (dels : List H) (targets : List U64) (adds : List (H × Bool))
    (hA : Abs p F) (hfull : p.full = true) (hok : LeavesOK F)
    (hn : F.numLeaves + adds.length < 2 ^ 63)
    (hnd : dels.Nodup) (hlive : ∀ d ∈ dels, d ∈ F.liveLeaves)
    (htargets : ∀ ts, dels.mapM F.posOf = some ts →
      targets = ts.map (fun q => BitVec.ofNat 64 (enc F.rows q)))
    (hpos : (dels.mapM F.posOf).isSome)
    (hadd : (adds.map (·.1)).Nodup) (hfresh : ∀ e ∈ adds, e.1 ∉ F.liveLeaves ∧ e.1 ≠ zero) :
    ∃ p' p'', PollardHeap.modify adds dels targets p = (.ok (), p') ∧
      PollardHeap.undo (BitVec.ofNat 64 adds.length) targets dels F.roots p' = (.ok (), p'') ∧
      (getRootHashes p'' = (.ok F.roots, p'') ∧ getRootHashes p = (.ok F.roots, p)) ∧
      (∀ pos : U64, getHash pos p'' = (.ok (PollardAbs.pollardGetHashNiece F pos), p'') ∧
        getHash pos p = (.ok (PollardAbs.pollardGetHashNiece F pos), p)) ∧
      (F.roots.Nodup → ∀ h : H,
        getLeafPosition h p'' = (.ok (PollardAbs.pollardGetLeafPosition F h), p'') ∧
        getLeafPosition h p = (.ok (PollardAbs.pollardGetLeafPosition F h), p)) ∧
      (F.roots.Nodup → ∀ hs : List H, (∀ h ∈ hs, h ∈ F.liveLeaves) → hs.Nodup → 1 < F.numLeaves →
        hs ≠ [] → ∃ ts ps, F.canon hs = some (ts, ps) ∧
          prove hs p'' = (.ok (ts.map (fun q => BitVec.ofNat 64 (enc F.rows q)), ps), p'') ∧
          prove hs p = (.ok (ts.map (fun q => BitVec.ofNat 64 (enc F.rows q)), ps), p)) := by
  obtain ⟨p', p'', h1, _, h3, a'', _⟩ := undo_refines hph p F dels targets adds hA hfull hok hn hnd hlive
    htargets hpos hadd hfresh
  have hn' : F.numLeaves < 2 ^ 63 := by omega
  have hnz : ∀ x ∈ F.liveLeaves, x ≠ (zero : H) := fun x hx => (hok x hx).1
  refine ⟨p', p'', h1, h3, ⟨Props.PollardHeap.getRoots_refines a'', Props.PollardHeap.getRoots_refines hA⟩,
    fun pos => ⟨Props.PollardHeap.getHash_refines a'' pos, Props.PollardHeap.getHash_refines hA pos⟩,
    fun hr h => ⟨PollardHeapB.getLeafPosition_refines a'' hn' hr h,
      PollardHeapB.getLeafPosition_refines hA hn' hr h⟩, ?_⟩
  intro hr hs hl hnd' h1' hne
  obtain ⟨ts, ps, hc, hp''⟩ := PollardHeapB.prove_refines hph a'' hn' hr hnz hs hl hnd' h1' hne
  obtain ⟨ts', ps', hc', hp0⟩ := PollardHeapB.prove_refines hph hA hn' hr hnz hs hl hnd' h1' hne
  rw [hc] at hc'
  obtain ⟨rfl, rfl⟩ := Prod.mk.inj (Option.some.inj hc')
  exact ⟨ts, ps, hc, hp'', hp0⟩

/-! ### non-vacuity, and the counterexamples to the two statements that were open -/

namespace Example
open UtreexoVerif.Spec.NodesUniqueExample UtreexoVerif.Props.PollardHeap.Example
open UtreexoVerif.Props.PollardHeapB.Example

theorem leavesOK5 : LeavesOK F5 := by
  intro x hx
  rw [live5] at hx
  simp only [List.mem_cons, List.not_mem_nil, or_false] at hx
  rcases hx with rfl | rfl | rfl | rfl | rfl <;>
    exact ⟨fun h => (by cases h), fun a b h => (by cases h)⟩

/-- the block of `Props.PollardHeap.Example` (delete leaves 1 and 4 of the five-leaf forest, add
two leaves) and its `Undo` (two `undoSingleAdd`, `undoEmptyRoots` taking the early exit,
`undoSingleDel` twice in the aunt branch): `undo_refines` applies -/
example : ∃ p' p'', PollardHeap.modify adds2 dels targets p5 = (.ok (), p') ∧
    Abs p' (F5.modify dels (adds2.map (·.1))) ∧
    PollardHeap.undo (BitVec.ofNat 64 adds2.length) targets dels F5.roots p' = (.ok (), p'') ∧
    Abs p'' F5 ∧ p''.full = true ∧ p''.numLeaves = p5.numLeaves ∧ p''.numDels = p5.numDels ∧
    (p''.nodeMap.map (·.1)).Perm (p5.nodeMap.map (·.1)) :=
  undo_refines hphT p5 F5 dels targets adds2 abs5 (by decide +kernel) leavesOK5 (by decide +kernel)
    (by decide) (by rw [live5]; decide)
    (by
      have : dels.mapM F5.posOf = some [(0, 0), (0, 3)] := by decide +kernel
      intro ts h; rw [this] at h; cases h; decide +kernel)
    (by decide +kernel) (by decide) (by rw [live5]; decide)

/-- six leaves: trees on rows 2 and 1 -/
def leaves6 : List (Term × Bool) :=
  [(.atom 1, true), (.atom 2, true), (.atom 3, true), (.atom 4, true), (.atom 5, true), (.atom 6, true)]
def p6' : Pollard Term := (PollardHeap.add leaves6 newAccumulator).2
def F6' : Forest Term := Forest.empty.addMany (leaves6.map (·.1))
/-- delete leaf 5 (its parent is the ROOT of the row-1 tree: the root branch of `undoSingleDel`) and
leaf 2 (aunt branch), add one leaf -/
def dels6 : List Term := [.atom 5, .atom 2]
def targets6 : List U64 := [4#64, 1#64]
def adds6 : List (Term × Bool) := [(.atom 7, true)]

theorem abs6' : Abs p6' F6' :=
  abs_of_check p6' F6' (by decide +kernel) (by decide +kernel) (by decide +kernel) (by decide +kernel)

theorem live6' : F6'.liveLeaves = [.atom 1, .atom 2, .atom 3, .atom 4, .atom 5, .atom 6] := by
  decide +kernel

theorem leavesOK6' : LeavesOK F6' := by
  intro x hx
  rw [live6'] at hx
  simp only [List.mem_cons, List.not_mem_nil, or_false] at hx
  rcases hx with rfl | rfl | rfl | rfl | rfl | rfl <;>
    exact ⟨fun h => (by cases h), fun a b h => (by cases h)⟩

/-- `undo_refines` on a block whose `Undo` runs `undoSingleDel` in its ROOT branch (leaf 5: the
parent position 9 is the root of the two-leaf tree) and in its aunt branch (leaf 2) -/
example : ∃ p' p'', PollardHeap.modify adds6 dels6 targets6 p6' = (.ok (), p') ∧
    Abs p' (F6'.modify dels6 (adds6.map (·.1))) ∧
    PollardHeap.undo (BitVec.ofNat 64 adds6.length) targets6 dels6 F6'.roots p' = (.ok (), p'') ∧
    Abs p'' F6' ∧ p''.full = true ∧ p''.numLeaves = p6'.numLeaves ∧ p''.numDels = p6'.numDels ∧
    (p''.nodeMap.map (·.1)).Perm (p6'.nodeMap.map (·.1)) :=
  undo_refines hphT p6' F6' dels6 targets6 adds6 abs6' (by decide +kernel) leavesOK6' (by decide +kernel)
    (by decide) (by rw [live6']; decide)
    (by
      have : dels6.mapM F6'.posOf = some [(0, 4), (0, 1)] := by decide +kernel
      intro ts h; rw [this] at h; cases h; decide +kernel)
    (by decide +kernel) (by decide) (by rw [live6']; decide)

/-- the parent position of target 4 in the six-leaf forest is a root position (so that run does
take the root branch) -/
example : isRootPosition (Parent 4#64 (TreeRows p6'.numLeaves)) p6'.numLeaves = true := by decide +kernel

/-- `undo_refines` on a block that deletes a WHOLE tree (leaf 5 of the five-leaf forest: a root
position, `p.Roots[tree] = node`) and adds one leaf, which the addition puts in place of the empty
root (`undoEmptyRoots` re-inserts it) -/
example : ∃ p' p'', PollardHeap.modify [(.atom 9, true)] [.atom 5] [4#64] p5 = (.ok (), p') ∧
    Abs p' (F5.modify [.atom 5] ([(Term.atom 9, true)].map (·.1))) ∧
    PollardHeap.undo (BitVec.ofNat 64 1) [4#64] [.atom 5] F5.roots p' = (.ok (), p'') ∧
    Abs p'' F5 ∧ p''.full = true ∧ p''.numLeaves = p5.numLeaves ∧ p''.numDels = p5.numDels ∧
    (p''.nodeMap.map (·.1)).Perm (p5.nodeMap.map (·.1)) :=
  undo_refines hphT p5 F5 [.atom 5] [4#64] [(.atom 9, true)] abs5 (by decide +kernel) leavesOK5
    (by decide +kernel) (by decide) (by rw [live5]; decide)
    (by
      have : [Term.atom 5].mapM F5.posOf = some [(0, 4)] := by decide +kernel
      intro ts h; rw [this] at h; cases h; decide +kernel)
    (by decide +kernel) (by decide) (by rw [live5]; decide)

/-- the hypotheses of `modify_undo_observables` are those of `undo_refines`: same instance -/
example : ∃ p' p'', PollardHeap.modify adds2 dels targets p5 = (.ok (), p') ∧
    PollardHeap.undo (BitVec.ofNat 64 adds2.length) targets dels F5.roots p' = (.ok (), p'') ∧
    (getRootHashes p'' = (.ok F5.roots, p'') ∧ getRootHashes p5 = (.ok F5.roots, p5)) ∧
    (∀ pos : U64, getHash pos p'' = (.ok (PollardAbs.pollardGetHashNiece F5 pos), p'') ∧
      getHash pos p5 = (.ok (PollardAbs.pollardGetHashNiece F5 pos), p5)) ∧
    (F5.roots.Nodup → ∀ h : Term,
      getLeafPosition h p'' = (.ok (PollardAbs.pollardGetLeafPosition F5 h), p'') ∧
      getLeafPosition h p5 = (.ok (PollardAbs.pollardGetLeafPosition F5 h), p5)) ∧
    (F5.roots.Nodup → ∀ hs : List Term, (∀ h ∈ hs, h ∈ F5.liveLeaves) → hs.Nodup → 1 < F5.numLeaves →
      hs ≠ [] → ∃ ts ps, F5.canon hs = some (ts, ps) ∧
        prove hs p'' = (.ok (ts.map (fun q => BitVec.ofNat 64 (enc F5.rows q)), ps), p'') ∧
        prove hs p5 = (.ok (ts.map (fun q => BitVec.ofNat 64 (enc F5.rows q)), ps), p5)) :=
  modify_undo_observables hphT p5 F5 dels targets adds2 abs5 (by decide +kernel) leavesOK5
    (by decide +kernel) (by decide) (by rw [live5]; decide)
    (by
      have : dels.mapM F5.posOf = some [(0, 0), (0, 3)] := by decide +kernel
      intro ts h; rw [this] at h; cases h; decide +kernel)
    (by decide +kernel) (by decide) (by rw [live5]; decide)
example : F5.roots.Nodup := by decide +kernel

/-- the heap after the deletions of the block alone: it represents `F5.delLeaves dels` … -/
def pDel : Pollard Term := (PollardHeap.modify [] dels targets p5).2
theorem absDel : Abs pDel (F5.delLeaves dels) :=
  abs_of_check pDel _ (by decide +kernel) (by decide +kernel) (by decide +kernel) (by decide +kernel)
theorem live5_nodup : F5.liveLeaves.Nodup := by rw [live5]; decide

/-- … `undoDels_refines` applies (the canonical targets are `[0, 3]`) -/
example : ∃ hp' nm' rs',
    undoDels ((dels.map (fun l => (F5.posOf l).getD (0, 0))).map (E F5.rows)) dels pDel =
      (.ok (), ⟨hp', nm', rs', pDel.numLeaves, pDel.numDels - BitVec.ofNat 64 dels.length, pDel.full⟩) ∧
    Abs ⟨hp', nm', rs', pDel.numLeaves, pDel.numDels - BitVec.ofNat 64 dels.length, pDel.full⟩ F5 :=
  undoDels_refines absDel leavesOK5 (by decide +kernel) live5_nodup (by decide) (by rw [live5]; decide)
example : (dels.map (fun l => (F5.posOf l).getD (0, 0))).map (E F5.rows) = targets := by decide +kernel

/-- … and so does `undo_rest` (`undoEmptyRoots` takes the early exit here; see
`Proofs/PollardHeapUndoRoots.lean` for an instance that runs its loop) -/
example : ∃ p'', (do undoEmptyRoots targets F5.roots; undoDels targets dels) pDel = (.ok (), p'') ∧
    Abs p'' F5 ∧ p''.numLeaves = pDel.numLeaves ∧
    p''.numDels = pDel.numDels - BitVec.ofNat 64 dels.length ∧ p''.full = pDel.full :=
  undo_rest hphT pDel F5 dels targets absDel.toAbsE leavesOK5 (by decide +kernel) live5_nodup (by decide)
    (by rw [live5]; decide) (by decide +kernel)

/-! #### the order of the targets matters to `Undo` (not to `Modify`) -/

/-- the block of the first example with the two targets exchanged (`modify_refines` allows that) -/
def pSw' : Pollard Term := (PollardHeap.modify adds2 dels [3#64, 0#64] p5).2
def pSw : Pollard Term := (PollardHeap.undo 2#64 [3#64, 0#64] dels F5.roots pSw').2

/-- `Modify` accepts the targets in any order and yields the same forest; `Undo` with the same
(exchanged) targets succeeds but pairs leaf 1 with position 3 and leaf 4 with position 0: the result
does NOT represent the previous forest — the hypothesis "targets in the order of `delHashes`" of
`undo_refines` is necessary -/
example : (PollardHeap.modify adds2 dels [3#64, 0#64] p5).1 = .ok () ∧
    Abs pSw' (F5.modify dels (adds2.map (·.1))) ∧
    (PollardHeap.undo 2#64 [3#64, 0#64] dels F5.roots pSw').1 = .ok () ∧ ¬ Abs pSw F5 := by
  refine ⟨by decide +kernel,
    abs_of_check pSw' _ (by decide +kernel) (by decide +kernel) (by decide +kernel) (by decide +kernel),
    by decide +kernel, ?_⟩
  intro a
  have h1 := Props.PollardHeap.getRoots_refines a
  have h2 : (getRootHashes pSw).1 ≠ .ok F5.roots := by decide +kernel
  rw [h1] at h2
  exact h2 rfl

/-! #### `Props.PollardHeap.undo_refines_statement` is false -/

/-- "delete" a hash that is not in the forest, with no target: `Modify` succeeds and changes
nothing … -/
def pN : Pollard Term := (PollardHeap.modify [] [.atom 9] [] p5).2

theorem runN1 : (PollardHeap.modify [] [Term.atom 9] [] p5).1 = .ok () := by decide +kernel
theorem runN : PollardHeap.modify [] [Term.atom 9] [] p5 = (.ok (), pN) := by
  have h := prod_eta (PollardHeap.modify [] [Term.atom 9] [] p5)
  rw [h, runN1]
  unfold pN
  rfl
theorem absN : Abs pN (F5.modify [.atom 9] (([] : List (Term × Bool)).map (·.1))) :=
  abs_of_check pN _ (by decide +kernel) (by decide +kernel) (by decide +kernel) (by decide +kernel)
/-- … and `Undo` returns the error of `undoDels` (`len(dels) != len(delHashes)`) -/
theorem undoN : (PollardHeap.undo (BitVec.ofNat 64 ([] : List (Term × Bool)).length) [] [Term.atom 9]
    F5.roots pN).1 = .err := by decide +kernel

/-- **`Props.PollardHeap.undo_refines_statement` is false**: it does not ask the deleted hashes to
be live leaves given by their positions (not a defect of the Go code: the caller passed a block
that deletes nothing with a non-empty `delHashes`) -/
theorem undo_refines_statement_false : ¬ Props.PollardHeap.undo_refines_statement Term := by
  intro h
  have h2 : TreesNZ F5 := PollardHeapB.treesNZ_of_nonzero hphT (fun x hx => (leavesOK5 x hx).1)
    (by decide +kernel)
  obtain ⟨p'', e, _⟩ := h hphT p5 pN F5 [.atom 9] [] [] abs5 (by decide +kernel) h2 runN absN
  have := undoN
  rw [e] at this
  cases this

/-! #### `Props.PollardHeapB.undo_rest_statement` is false -/

/-- a forest with a duplicated leaf -/
def FD : Forest Term := ⟨[some (.atom 1), some (.atom 1), some (.atom 2)]⟩
def leavesD : List (Term × Bool) := [(.atom 3, true), (.atom 4, true), (.atom 2, true)]
/-- a heap representing `FD` without its (two) leaves `atom 1` -/
def pD : Pollard Term :=
  (PollardHeap.modify [] [.atom 3, .atom 4] [0#64, 1#64] (PollardHeap.add leavesD newAccumulator).2).2

theorem absD' : Abs pD (FD.delLeaves [.atom 1]) :=
  abs_of_check pD _ (by decide +kernel) (by decide +kernel) (by decide +kernel) (by decide +kernel)

/-- **`Props.PollardHeapB.undo_rest_statement` is false**: it lacks `F.liveLeaves.Nodup` — when
the "previous" forest holds a leaf twice, deleting it kills both copies and nothing can bring two
back (no heap represents a forest with a duplicated leaf: `NodeMap` has distinct keys) -/
theorem undo_rest_statement_false : ¬ Props.PollardHeapB.undo_rest_statement Term := by
  intro h
  have hlive : FD.liveLeaves = [.atom 1, .atom 1, .atom 2] := by decide +kernel
  have hok : LeavesOK FD := by
    intro x hx
    rw [hlive] at hx
    simp only [List.mem_cons, List.not_mem_nil, or_false] at hx
    rcases hx with rfl | rfl | rfl <;> exact ⟨fun h => (by cases h), fun a b h => (by cases h)⟩
  obtain ⟨p'', _, a⟩ := h hphT pD FD [.atom 1] _ absD'.toAbsE (by decide +kernel) hok (by decide +kernel)
    (by decide) (by rw [hlive]; decide) rfl
  have := abs_liveLeaves_nodup a (by decide +kernel)
  rw [hlive] at this
  exact absurd this (by decide)

end Example

end UtreexoVerif.Props.PollardHeapC
