/-
  C11 — update data describes exactly what the block changed: the ADDITION part
  (`NewAddPos/NewAddHash`, `ToDestroy`) of `Stump.add`.

  `stump_add_updateData`: for a stump that holds the roots of a specification forest `F`
  (distinct, non-zero leaves that are not parent hashes; collision-free `ph`), `Stump.add`
  returns

  * the roots and leaf count of `F.addMany adds` (C01);
  * `upd` — strictly sorted by position, no hash twice — containing exactly the pairs of
    `Spec.NewAddSpec`: every added leaf and every node that became a child of a parent
    created by the additions, each with its final position (in `TreeRows` coordinates of the
    forest after the block) and hash;
  * `td` — the root positions (same coordinates), in order of destruction (ascending rows), of
    exactly the all-zero roots that the additions merged over.

  Not covered here: `NewDel*` (the deletion half, needs `calculateHashes` completeness).

  `stump_add_updateData_nd`: the same conclusion for a hash that is not collision-free (`CR H` is
  impossible for a finite hash type): from `NZ H` (parent hashes are never the zero hash), non-zero
  leaves and the finite, decidable `NodesDistinct (F.addMany adds)` of `Proofs/NodesUnique.lean`;
  `stump_add_updateData` is its corollary under `CR H`.
-/
import UtreexoVerif.Proofs.StumpAddPos
import UtreexoVerif.Proofs.NodeCred
import UtreexoVerif.Proofs.SortBy
import UtreexoVerif.Props.C16b
import UtreexoVerif.Props.C01

namespace UtreexoVerif.Props.C11
open UtreexoVerif Model Hasher Spec Proofs Proofs.FinalPos Proofs.StumpAdd Proofs.StumpAddPos

/-- the bit-level facts used by the position proofs, from the C16 theorems -/
theorem posFacts : PosFacts where
  isAncestor := fun hh hr ho hr' ho' => Props.C16.isAncestor_enc hh hr ho hr' ho'
  calcNext := fun hh hrr hr' ho ho' => Props.C16.calcNextPosition_enc hh hrr hr' ho ho'
  rootPosition := fun hh hrow n hn => by
    rw [Props.C16.rootPosition_enc hh hrow n hn]
    simp [Spec.rootPos, Nat.shiftRight_eq_div_pow]

section
variable {H : Type} [DecidableEq H] [Hasher H]

theorem forestRows_le_63 {N : Nat} (hN : N ≤ 2 ^ 63) : forestRows N ≤ 63 := by
  unfold forestRows
  split
  · omega
  · have : (N - 1).log2 < 63 := (Nat.log2_lt (by omega)).2 (by omega)
    omega

theorem treeRows_eq_H8 {N : Nat} (hN : N ≤ 2 ^ 63) :
    TreeRows (BitVec.ofNat 64 N) = H8 (forestRows N) := by
  apply BitVec.eq_of_toNat_eq
  rw [Props.C16.treeRows_spec (by omega), toNat_H8 (forestRows_le_63 hN)]

/-- positions of nodes are proper positions -/
theorem isNode_valid (S : List (Option H)) {R : Nat} (hN : S.length ≤ 2 ^ R) {pos : Pos} {h : H}
    (hn : IsNode S (pos, h)) : pos.1 ≤ R ∧ pos.2 < 2 ^ (R - pos.1) := by
  obtain ⟨T, l, b, ⟨h1, h2, _⟩, _, he⟩ := hn
  have := nodePos_valid S (R := R) b hN h1 h2
  rw [(Prod.mk.inj he).1]
  exact ⟨by omega, this.2.2.2⟩

theorem encP_inj {R : Nat} (hR : R ≤ 63) {p q : Pos} (hp : p.1 ≤ R ∧ p.2 < 2 ^ (R - p.1))
    (hq : q.1 ≤ R ∧ q.2 < 2 ^ (R - q.1)) (h : encP R p = encP R q) : p = q := by
  unfold encP at h
  have := congrArg BitVec.toNat h
  rw [toNat_encU hR hp.1 hp.2, toNat_encU hR hq.1 hq.2] at this
  have := Props.C16.enc_injective hp.1 hp.2 hq.1 hq.2 this
  exact Prod.ext this.1 this.2

/-- Full statement of the addition part of C11 (see the file header). -/
def stump_add_updateData_statement (H : Type) [DecidableEq H] [Hasher H] : Prop :=
  ∀ (nonZero : H) (F : Forest H) (s : Stump H) (adds : List H),
    CR H → nonZero ≠ (zero : H) →
    s.roots = F.roots → s.numLeaves = BitVec.ofNat 64 F.numLeaves →
    F.numLeaves + adds.length ≤ 2 ^ 63 →
    ((F.slots ++ adds.map some).filterMap id).Nodup →
    (∀ x : H, some x ∈ F.slots ++ adds.map some → x ≠ (zero : H) ∧ ∀ a b : H, x ≠ ph a b) →
    let S := F.slots ++ adds.map some
    let n := F.numLeaves
    let R := forestRows (n + adds.length)
    ∃ upd td, s.add nonZero adds =
        .ok (⟨(F.addMany adds).roots, BitVec.ofNat 64 (n + adds.length)⟩, upd, td) ∧
      -- NewAdd: exactly the specified (position, hash) pairs
      (∀ p h, (p, h) ∈ upd ↔ ∃ pos : Pos, p = encU R pos.1 pos.2 ∧ NewAddSpec n S (pos, h)) ∧
      -- strictly sorted by position, no hash twice
      upd.Pairwise (fun a b => a.1 < b.1) ∧ (upd.map (·.2)).Nodup ∧
      -- ToDestroy: the all-zero roots merged over, ascending rows, at their root positions
      ∃ L : List Nat, td = L.map (fun h => encU R h (2 * (n / 2 ^ (h + 1)))) ∧ AscFrom 0 L ∧
        ∀ h, h ∈ L ↔ (n.testBit h = true ∧ chunkHash F.slots h (2 * (n / 2 ^ (h + 1))) = zero ∧
          (n / 2 ^ (h + 1) + 1) * 2 ^ (h + 1) ≤ n + adds.length)

/-- **The addition part of C11 for a hash that is NOT collision-free.**  The same conclusion as
`stump_add_updateData_statement`, from `NZ H` (parent hashes are never the zero hash), non-zero
leaves, and the FINITE hypothesis `NodesDistinct (F.addMany adds)`: no non-zero hash sits at two
places of the forest after the additions (decidable; a violation is an explicit collision).
`Stump.add` collects `NewAdd` in a map keyed by hash, so this hypothesis is needed. -/
theorem stump_add_updateData_nd (nz : NZ H) (nonZero : H) (F : Forest H) (s : Stump H)
    (adds : List H) (hnz : nonZero ≠ (zero : H))
    (hr : s.roots = F.roots) (hn : s.numLeaves = BitVec.ofNat 64 F.numLeaves)
    (hlt : F.numLeaves + adds.length ≤ 2 ^ 63)
    (hSnz : ∀ x : H, some x ∈ F.slots ++ adds.map some → x ≠ (zero : H))
    (hd : NodesDistinct (F.addMany adds)) :
    let S := F.slots ++ adds.map some
    let n := F.numLeaves
    let R := forestRows (n + adds.length)
    ∃ upd td, s.add nonZero adds =
        .ok (⟨(F.addMany adds).roots, BitVec.ofNat 64 (n + adds.length)⟩, upd, td) ∧
      (∀ p h, (p, h) ∈ upd ↔ ∃ pos : Pos, p = encU R pos.1 pos.2 ∧ NewAddSpec n S (pos, h)) ∧
      upd.Pairwise (fun a b => a.1 < b.1) ∧ (upd.map (·.2)).Nodup ∧
      ∃ L : List Nat, td = L.map (fun h => encU R h (2 * (n / 2 ^ (h + 1)))) ∧ AscFrom 0 L ∧
        ∀ h, h ∈ L ↔ (n.testBit h = true ∧ chunkHash F.slots h (2 * (n / 2 ^ (h + 1))) = zero ∧
          (n / 2 ^ (h + 1) + 1) * 2 ^ (h + 1) ≤ n + adds.length) := by
  intro S n R
  have hSlen : S.length = n + adds.length := by simp [S, n, Forest.numLeaves]
  have hR : R ≤ 63 := forestRows_le_63 hlt
  have hN : S.length ≤ 2 ^ R := by rw [hSlen]; exact forestRows_spec_le _
  have hS64 : S.length < 2 ^ 64 := by omega
  have hf : Functional S := fun p p' h h1 h2 =>
    isNode_functional_nd nz S hS64 hSnz hd p p' h h1 h2
  have hTR : TreeRows (BitVec.ofNat 64 n + BitVec.ofNat 64 adds.length) = H8 R := by
    rw [← BitVec.ofNat_add]; exact treeRows_eq_H8 hlt
  -- ToDestroy
  have hzp : F.roots.map (fun r => decide (r = zero)) = (treeRows n).map
      (fun h => decide (chunkHash F.slots h (2 * (n / 2 ^ (h + 1))) = zero)) := by
    rw [roots_chunks, List.map_map]; rfl
  obtain ⟨L, hd, hLasc, hLmem⟩ := rootsToDestroy_exact posFacts hR nonZero hnz adds.length n _
    F.roots (by rw [← hSlen]; exact hN) hzp hTR
  -- the loop
  obtain ⟨upd', hloop, hc, hkeys, hmem⟩ := loop_exact posFacts nz.nonzero nonZero hnz S hSnz hf hR hN
    adds F s [] adds.length rfl rfl hr hn (fun _ => hTR) (fun e he => by cases he) (by simp)
  refine ⟨sortHP (upd'.map (fun e => (e.2, e.1))), L.map (fun h => encU R h (2 * (n / 2 ^ (h + 1)))),
    ?_, ?_, ?_, ?_, L, rfl, hLasc, ?_⟩
  · unfold Stump.add
    simp only
    rw [hn, hr, hd, ok_bind, hTR, hloop, ok_bind]
    rfl
  · intro p h
    unfold sortHP
    rw [(SortBy.sortBy_perm _ _).mem_iff, List.mem_map]
    constructor
    · rintro ⟨e, he, heq⟩
      have := (hmem e).mp he
      rcases this with h0 | ⟨pos, hp1, hp2⟩
      · cases h0
      · have heq' := Prod.mk.inj heq
        exact ⟨pos, by rw [← heq'.1, hp1]; rfl, by rw [← heq'.2]; exact hp2⟩
    · rintro ⟨pos, hp1, hp2⟩
      exact ⟨(h, p), (hmem (h, p)).mpr (Or.inr ⟨pos, by rw [hp1]; rfl, hp2⟩), rfl⟩
  · -- strictly sorted: positions are pairwise distinct
    apply SortBy.sortBy_strict
    rw [List.map_map]
    apply SortBy.nodup_map_of_inj (fun e : H × U64 => e.1) _ upd' hkeys
    intro a ha b hb hab
    obtain ⟨pa, ha1, ha2⟩ := hc a ha
    obtain ⟨pb, hb1, hb2⟩ := hc b hb
    simp only [Function.comp] at hab
    rw [ha1, hb1] at hab
    have := encP_inj hR (isNode_valid S hN ha2) (isNode_valid S hN hb2) hab
    subst this
    exact isNode_pos_unique S hS64 pa a.1 b.1 ha2 hb2
  · unfold sortHP
    have hp := (SortBy.sortBy_perm (fun e : U64 × H => e.1) (upd'.map (fun e => (e.2, e.1)))).map (·.2)
    rw [hp.nodup_iff, List.map_map]
    exact hkeys
  · intro h
    rw [hLmem]
    simp only [decide_eq_true_eq]

theorem stump_add_updateData : stump_add_updateData_statement H := by
  intro nonZero F s adds cr hnz hr hn hlt hnd hleaf
  exact stump_add_updateData_nd cr.toNZ nonZero F s adds hnz hr hn hlt (fun x hx => (hleaf x hx).1)
    (nodesDistinct_of_CR cr (F.addMany adds)
      (by show (F.slots ++ adds.map some).length < 2 ^ 64
          simp only [List.length_append, List.length_map]; unfold Forest.numLeaves at hlt; omega)
      hnd (fun x hx a b => (hleaf x (Forest.mem_liveLeaves.mp hx)).2 a b))

/-- the pairs of the specification are nodes of the final forest (`Spec.Forest.nodes`) at the
stated positions -/
theorem newAddSpec_mem_nodes (n : Nat) (S : List (Option H)) (hS : S.length < 2 ^ 64) (pos : Pos) (h : H)
    (hs : NewAddSpec n S (pos, h)) : ∃ lf, (pos, h, lf) ∈ (Forest.mk S).nodes :=
  isNode_mem_nodes S hS hs.isNode

/-- every added leaf is reported (with the position of its slot's collapsed node) -/
theorem newAddSpec_added_leaf (F : Forest H) (adds : List H) (i : Nat) (hi : i < adds.length) :
    ∃ pos, NewAddSpec F.numLeaves (F.slots ++ adds.map some) (pos, adds[i]) := by
  have hlen : (F.slots ++ adds.map some).length = F.numLeaves + adds.length := by
    simp [Forest.numLeaves]
  have hslot : (F.slots ++ adds.map some)[F.numLeaves + i]? = some (some adds[i]) := by
    rw [List.getElem?_append_right (by simp [Forest.numLeaves])]
    simp [Forest.numLeaves, hi]
  obtain ⟨T, h1, h2, h3⟩ := exists_tree_of_lt (F.slots ++ adds.map some).length (F.numLeaves + i)
    (by omega)
  refine ⟨nodePos (F.slots ++ adds.map some) T 0 (F.numLeaves + i), T, 0, F.numLeaves + i,
    by simpa using inTree_of_slot h1 h2 h3 (l := 0) (Nat.zero_le _), ?_, ?_, Or.inl ⟨rfl, by omega⟩⟩
  · unfold chunkAlive; rw [chunk_zero, hslot]; rfl
  · unfold chunkHash; rw [chunk_zero, hslot]; rfl

end

/-! ### non-vacuity -/

namespace Example
open UtreexoVerif.Props.C01.Example

/-- a forest of three slots: the tree on row 1 has no survivors (all-zero root), leaf 3 alive -/
def F3 : Forest T := ⟨[none, none, some (.leaf 3)]⟩

/-- `stump_add_updateData` applies: adding leaf 4 merges over the empty root -/
example : ∃ upd td, (Stump.mk F3.roots 3#64).add (T.leaf 0) [.leaf 4] =
      .ok (⟨(F3.addMany [.leaf 4]).roots, BitVec.ofNat 64 (3 + 1)⟩, upd, td) ∧
    (∀ p h, (p, h) ∈ upd ↔ ∃ pos : Pos, p = encU (forestRows 4) pos.1 pos.2 ∧
      NewAddSpec 3 (F3.slots ++ [some (.leaf 4)]) (pos, h)) ∧
    upd.Pairwise (fun a b => a.1 < b.1) ∧ (upd.map (·.2)).Nodup := by
  obtain ⟨upd, td, h1, h2, h3, h4, _⟩ := stump_add_updateData (T.leaf 0) F3 ⟨F3.roots, 3#64⟩ [.leaf 4] cr
    (by intro h; cases h) rfl (by decide) (by decide) (by decide)
    (by
      intro x hx
      simp [F3] at hx
      rcases hx with rfl | rfl
      · exact ⟨(by intro h; cases h), (by intro a b h; cases h)⟩
      · exact ⟨(by intro h; cases h), (by intro a b h; cases h)⟩)
  exact ⟨upd, td, h1, h2, h3, h4⟩

/-- the concrete value: leaf 3 and leaf 4 become the children (positions 4 and 5 of a forest
with 2 rows) of the new root; the empty root at position 4 was destroyed -/
example : (Stump.mk F3.roots 3#64).add (T.leaf 0) [.leaf 4] =
    .ok (⟨[T.node (.leaf 3) (.leaf 4)], 4#64⟩, [(4#64, .leaf 3), (5#64, .leaf 4)], [4#64]) := by
  decide +kernel

/-- a larger instance: five slots (one dead), three additions; the created nodes with their
final positions in a forest with 3 rows -/
example : ((Stump.mk F5.roots 5#64).add (T.leaf 0) [.leaf 6, .leaf 7, .leaf 8]).toOption.map (·.2.1) =
    some [(4#64, .leaf 5), (5#64, .leaf 6), (6#64, .leaf 7), (7#64, .leaf 8),
      (10#64, .node (.leaf 5) (.leaf 6)), (11#64, .node (.leaf 7) (.leaf 8)),
      (12#64, .node (.leaf 1) (.node (.leaf 3) (.leaf 4))),
      (13#64, .node (.node (.leaf 5) (.leaf 6)) (.node (.leaf 7) (.leaf 8)))] := by
  decide +kernel

end Example

end UtreexoVerif.Props.C11
