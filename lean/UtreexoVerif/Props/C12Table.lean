/-
  C12, the regenerated tie: the lock table extracted from the CURRENT `mappollard.go`
  (`Gen/LockTable.lean`, rewritten by translate/locktable on every check) passes the
  computable check `LockDiscipline` of `Model/Lock.lean`.  Everything here is closed by
  kernel evaluation (`decide +kernel`); if the Go source changes the lock discipline, this
  file stops compiling.  What the check implies is proved generically in `Props/C12.lean`.
-/
import UtreexoVerif.Props.C12
import UtreexoVerif.Gen.LockTable

namespace UtreexoVerif.Props.C12Table
open UtreexoVerif.Model.Lock UtreexoVerif.Gen.LockTable UtreexoVerif.Props.C12

/-- the translator understood the whole file (a stub table sets this to `false`) -/
theorem translation_ok : translationOk = true := by decide

theorem allMethods_complete : ∀ m : Method, m ∈ allMethods := by
  intro m; cases m <;> decide

/-- THE TIE: the lock discipline extracted from the current Go source passes the check. -/
theorem lockTable_ok : LockDiscipline table allMethods = true := by decide +kernel

/-- every exported operation of the property's quantifier — the queries (roots, verifier snapshot,
prove, verify, look-ups, missing positions, leaf count, serialization) and the writers — is ONE
critical section: the only exported methods that take no lock themselves and still reach
lock-taking methods are the two debug printers, which string several locked getters together and
are not queries in the sense of the property -/
theorem queries_single_section :
    SingleSection table allMethods [.«String», .«AllSubTreesToString»] = true := by decide +kernel

/-- `Full` is written by no method: immutable after construction (extracted, not assumed);
this is what makes the unlocked `if m.Full` at the top of `Prune` race-free. -/
theorem full_immutable : mutF table allMethods .Full = false := by decide +kernel

/-- every `verifPoint` site lies in a method that takes the write lock itself or can only
run with the write lock held: a harness that suspends a thread at a site suspends a writer
inside its critical section -/
theorem hooks_in_write_sections :
    hookSites.all (fun sm => decide (inferCtxs table allMethods sm.2 = { w := true }) ||
      ((table sm.2).lock == .w)) = true := by decide +kernel

/-- C12 for the lock discipline of the current `mappollard.go`: for every number of
goroutines calling exported `*MapPollard` methods, in every reachable state of every
execution: race-free, atomic whole-block views, deadlock-free, `Full` constant. -/
theorem C12 : C12_statement table allMethods :=
  C12_of_discipline table allMethods allMethods_complete lockTable_ok

/-! ### Non-vacuity: programs of the real table -/

namespace Examples

/-- a call of `GetNumLeaves` as the table describes it: `RLock; read NumLeaves; RUnlock` -/
def getNumLeaves : List (Instr Field Nat) := [.acquire .r, .acc (.read .NumLeaves), .release .r]

/-- a call of `Modify` that runs `add` once: `Lock; read NumLeaves; hook; write NumLeaves; Unlock` -/
def modifyOnce : List (Instr Field Nat) :=
  [.acquire .w, .acc (.read .NumLeaves), .acc .hook, .acc (.write .NumLeaves (fun l => l.getLastD 0 + 1)), .release .w]

/-- the hypotheses of `C12` are satisfiable: both programs are `ApiProg`s of the real table -/
theorem getNumLeaves_api : ApiProg table getNumLeaves := by
  have h : Gen (V := Nat) table .none (.call Method.GetNumLeaves)
      ([] ++ .acquire .r :: ([.acc (.read .NumLeaves)] ++ [.release .r])) :=
    Gen.callLocked (T := table) (m := Method.GetNumLeaves) rfl (by decide) rfl Gen.segNil
      (Gen.segAcc (a := Acc.read Field.NumLeaves) (by show Field.NumLeaves ∈ _; decide) Gen.segNil)
  simpa [getNumLeaves] using ApiProg.call (T := table) (m := Method.GetNumLeaves) rfl h ApiProg.nil

theorem modifyOnce_api : ApiProg table modifyOnce := by
  -- Modify's body calls `add`, whose direct footprint reads and writes NumLeaves and has the hook
  have hadd : Gen (V := Nat) table .w (.call Method.add)
      ([] ++ [.acc (.read .NumLeaves), .acc .hook, .acc (.write .NumLeaves (fun l => l.getLastD 0 + 1))]) :=
    Gen.callPlain (T := table) (m := Method.add) rfl rfl Gen.segNil
      (Gen.segAcc (a := Acc.read Field.NumLeaves) (by show Field.NumLeaves ∈ _; decide)
        (Gen.segAcc (a := Acc.hook) True.intro
          (Gen.segAcc (a := Acc.write Field.NumLeaves _) (by show Field.NumLeaves ∈ _; decide) Gen.segNil)))
  have hbody : Gen (V := Nat) table .w
      (.seg (table Method.Modify).reads (table Method.Modify).writes (table Method.Modify).calls)
      (([] ++ [.acc (.read .NumLeaves), .acc .hook, .acc (.write .NumLeaves (fun l => l.getLastD 0 + 1))]) ++ []) :=
    Gen.segCall (n := Method.add) (by decide) hadd Gen.segNil
  have h : Gen (V := Nat) table .none (.call Method.Modify) ([] ++ .acquire .w :: (_ ++ [.release .w])) :=
    Gen.callLocked (T := table) (m := Method.Modify) rfl (by decide) rfl Gen.segNil hbody
  simpa [modifyOnce] using ApiProg.call (T := table) (m := Method.Modify) rfl h ApiProg.nil

/-- … so C12 applies to a reader racing a block, whatever the schedule -/
example (s : State Field Nat) (hr : Reachable (State.initial (fun _ => 0) [getNumLeaves, modifyOnce]) s) :
    RaceFree s ∧ Atomic s ∧ DeadlockFree s := by
  have h := C12 Nat (fun _ => 0) [getNumLeaves, modifyOnce]
    (by intro p hp; simp at hp; rcases hp with rfl | rfl; exact getNumLeaves_api; exact modifyOnce_api) s hr
  exact ⟨h.1, h.2.1, h.2.2.1⟩

end Examples

end UtreexoVerif.Props.C12Table
