/-
  Property C13 — serialization round-trips exactly; damaged streams are never accepted silently.

  The theorems are about the Lean model of `Pollard.WriteTo`/`writeOne`/`SerializeSize`/
  `RestorePollardFrom`/`readOne` and `MapPollard.Write`/`Read` (`Model/Serial.lean`, Go's
  statement order, byte counts as Go returns them), over
    * every specification forest `F` (`Spec.Forest`) resp. every map state `m`,
    * every reader, i.e. every way of splitting the stream into `Read` results, with or
      without `io.EOF` delivered together with the last data (`Reader`),
    * every truncation point `t`, every failure offset `k` of the writer (`Sink`).
  Hashes are abstract; their 32-byte wire form is a hypothesis (`HashBytesOK`).

  `C13_statement` is the full statement; `C13` proves it.  What the model cannot express is
  stated in the docstrings: real `io.Reader`/`io.Writer` implementations are represented by
  `Reader`/`Sink`; the pointer forest is represented by its shape (`PNode`), so "the restored
  forest behaves identically" is the equality `restored state = PState.ofForest F` (every
  operation is a function of the state) — the behaviour of the Go pointer surgery on that
  state is tied by the correspondence run (families `serial`, `serialexh`), not by a theorem.
-/
import UtreexoVerif.Proofs.SerialGeneral

namespace UtreexoVerif.Props.C13
open UtreexoVerif Model.Serial Spec Hasher Proofs.Serial

-- ---------------------------------------------------------------- the full statement

/-- the C13 claims about the pointer forest holding the specification forest `F` -/
def PollardClaims {H : Type} [DecidableEq H] [Hasher H] [HashBytes H] (F : Forest H) : Prop :=
  -- (1) restoring the written bytes through ANY chunking yields exactly the written state,
  --     and the reported count is the length of the stream
  (∀ r : Reader, r.data = encodePollard F →
      restorePollard r = ⟨(encodePollard F).length, .ok (PState.ofForest F)⟩) ∧
  -- (2) the size predicted beforehand is the length of the stream
  serializeSize (PState.ofForest F) = (encodePollard F).length ∧
  -- (3) restoring from a strict prefix, through any chunking, is an error (never a panic, never
  --     a silently different state), and the reported count does not exceed the bytes present
  (∀ (r : Reader) (t : Nat), t < (encodePollard F).length → r.data = (encodePollard F).take t →
      (restorePollard (H := H) r).out = .err ∧ (restorePollard (H := H) r).n ≤ t) ∧
  -- (4) a writer with enough room receives exactly the stream and the count is its length
  (∀ k : Nat, (encodePollard F).length ≤ k →
      writeTo (PState.ofForest F) ⟨[], k⟩ =
        (⟨(encodePollard F).length, .ok ()⟩, ⟨encodePollard F, k - (encodePollard F).length⟩)) ∧
  -- (5) a writer that fails after k bytes, k below the length: an error, count ≤ k
  (∀ k : Nat, k < (encodePollard F).length →
      (writeTo (PState.ofForest F) ⟨[], k⟩).1.out = .err ∧ (writeTo (PState.ofForest F) ⟨[], k⟩).1.n ≤ k)

/-- the C13 claims about a map forest whose serialised state is `m` (maps walked in the order
of the lists), restored into a receiver whose maps are empty (a fresh `NewMapPollard`) -/
def MapClaims {H : Type} [DecidableEq H] [HashBytes H] (m : MapSt H) : Prop :=
  (∀ (m0 : MapSt H) (r : Reader), m0.cached = [] → m0.nodes = [] → r.data = encodeMap m →
      mapRead m0 r = ⟨(encodeMap m).length, .ok m⟩) ∧
  (∀ (m0 : MapSt H) (r : Reader) (t : Nat), t < (encodeMap m).length → r.data = (encodeMap m).take t →
      (mapRead m0 r).out = .err ∧ (mapRead m0 r).n ≤ t) ∧
  (∀ k : Nat, (encodeMap m).length ≤ k →
      mapWrite m ⟨[], k⟩ = (⟨(encodeMap m).length, .ok ()⟩, ⟨encodeMap m, k - (encodeMap m).length⟩)) ∧
  (∀ k : Nat, k < (encodeMap m).length →
      (mapWrite m ⟨[], k⟩).1.out = .err ∧ (mapWrite m ⟨[], k⟩).1.n ≤ k)

/-- what holds of EVERY stream, valid or damaged: the decoders depend only on the concatenation
of the chunks, never panic and always return -/
def AllStreamsClaims (H : Type) [DecidableEq H] [Hasher H] [HashBytes H] : Prop :=
  (∀ r1 r2 : Reader, r1.data = r2.data → restorePollard (H := H) r1 = restorePollard r2) ∧
  (∀ (m0 : MapSt H) (r1 r2 : Reader), r1.data = r2.data → mapRead m0 r1 = mapRead m0 r2) ∧
  (∀ r : Reader, (restorePollard (H := H) r).out ≠ .panic ∧ (restorePollard (H := H) r).out ≠ .hang) ∧
  (∀ (m0 : MapSt H) (r : Reader), (mapRead m0 r).out ≠ .panic ∧ (mapRead m0 r).out ≠ .hang)

/-- **C13, full statement** (model level).  For every hash type with a 32-byte wire form:
every forest with fewer than 2^63 leaves whose live leaves are non-zero with distinct 12-byte
keys satisfies the pointer-forest claims; every map state with distinct keys that passes its
own sanity check satisfies the map claims; and the all-streams claims hold. -/
def C13_statement : Prop :=
  ∀ (H : Type) [DecidableEq H] [Hasher H] [HashBytes H], HashBytesOK H →
    (∀ F : Forest H, LeavesOK F → PollardClaims F) ∧
    (∀ m : MapSt H, MapOK m → MapClaims m) ∧
    AllStreamsClaims H

-- ---------------------------------------------------------------- the theorems

section
variable {H : Type} [DecidableEq H] [Hasher H] [HashBytes H]

/-- `io.ReadFull` on the chunk-list reader depends only on the concatenation of the chunks -/
theorem readFull_chunking {r1 r2 : Reader} (h : r1.data = r2.data) (k : Nat) :
    (readFull r1 k).1 = (readFull r2 k).1 ∧ (readFull r1 k).2.data = (readFull r2 k).2.data :=
  readFull_congr h k

theorem pollard_roundtrip (ok : HashBytesOK H) (F : Forest H) (hF : LeavesOK F) (r : Reader)
    (hd : r.data = encodePollard F) :
    restorePollard r = ⟨(encodePollard F).length, .ok (PState.ofForest F)⟩ :=
  restorePollard_encode ok F hF r hd

theorem pollard_size (ok : HashBytesOK H) (F : Forest H) :
    serializeSize (PState.ofForest F) = (encodePollard F).length :=
  serializeSize_eq ok F

theorem pollard_prefix (ok : HashBytesOK H) (F : Forest H) (hn : F.numLeaves < 2 ^ 64) (r : Reader) (t : Nat)
    (ht : t < (encodePollard F).length) (hd : r.data = (encodePollard F).take t) :
    (restorePollard (H := H) r).out = .err ∧ (restorePollard (H := H) r).n ≤ t :=
  restorePollard_prefix ok F hn r t ht hd

theorem pollard_sink_ok (ok : HashBytesOK H) (F : Forest H) (k : Nat) (hk : (encodePollard F).length ≤ k) :
    writeTo (PState.ofForest F) ⟨[], k⟩ =
      (⟨(encodePollard F).length, .ok ()⟩, ⟨encodePollard F, k - (encodePollard F).length⟩) := by
  have := (writeTo_spec ok F ⟨[], k⟩).1 hk
  simpa using this

theorem pollard_sink_fail (ok : HashBytesOK H) (F : Forest H) (k : Nat) (hk : k < (encodePollard F).length) :
    (writeTo (PState.ofForest F) ⟨[], k⟩).1.out = .err ∧ (writeTo (PState.ofForest F) ⟨[], k⟩).1.n ≤ k :=
  (writeTo_spec ok F ⟨[], k⟩).2 hk

theorem pollard_chunking (r1 r2 : Reader) (h : r1.data = r2.data) :
    restorePollard (H := H) r1 = restorePollard r2 :=
  restorePollard_chunking r1 r2 h

theorem pollard_total (r : Reader) :
    (restorePollard (H := H) r).out ≠ .panic ∧ (restorePollard (H := H) r).out ≠ .hang :=
  ⟨(restorePollard_total r).2, (restorePollard_total r).1⟩

/-- the stream order of the live leaves is a permutation of the live leaves (used to state
the hypotheses on `F.liveLeaves`) -/
theorem wire_leaves_perm (F : Forest H) (hn : F.numLeaves < 2 ^ 65) : (wireLeaves F).Perm F.liveLeaves :=
  wireLeaves_perm F hn

end

section
variable {H : Type} [DecidableEq H] [HashBytes H]

theorem map_roundtrip (ok : HashBytesOK H) (m : MapSt H) (hm : MapOK m) (m0 : MapSt H)
    (hc0 : m0.cached = []) (hn0 : m0.nodes = []) (r : Reader) (hd : r.data = encodeMap m) :
    mapRead m0 r = ⟨(encodeMap m).length, .ok m⟩ :=
  mapRead_encode ok m hm m0 hc0 hn0 r hd

/-- extra (outside the property): `Read` into a receiver that is not empty does not clear it —
the records of the stream are put over the receiver's entries -/
theorem map_read_into_used_receiver (ok : HashBytesOK H) (m : MapSt H) (hc : m.cached.length < 2 ^ 63)
    (hn : m.nodes.length < 2 ^ 63) (m0 : MapSt H) (r : Reader) (hd : r.data = encodeMap m) :
    mapRead m0 r =
      if sanityOk (putRecs m0.cached m.cached) (putRecs m0.nodes m.nodes) then
        ⟨(encodeMap m).length, .ok (MapSt.mk m.totalRows m.numLeaves
          (putRecs m0.cached m.cached) (putRecs m0.nodes m.nodes))⟩
      else ⟨8, .err⟩ :=
  mapRead_encode_into ok m hc hn m0 r hd

theorem map_prefix (ok : HashBytesOK H) (m : MapSt H) (hm : MapOK m) (m0 : MapSt H) (r : Reader) (t : Nat)
    (ht : t < (encodeMap m).length) (hd : r.data = (encodeMap m).take t) :
    (mapRead m0 r).out = .err ∧ (mapRead m0 r).n ≤ t :=
  mapRead_prefix ok m hm m0 r t ht hd

theorem map_sink_ok (ok : HashBytesOK H) (m : MapSt H) (k : Nat) (hk : (encodeMap m).length ≤ k) :
    mapWrite m ⟨[], k⟩ = (⟨(encodeMap m).length, .ok ()⟩, ⟨encodeMap m, k - (encodeMap m).length⟩) := by
  have := (mapWrite_spec ok m ⟨[], k⟩).1 hk
  simpa using this

theorem map_sink_fail (ok : HashBytesOK H) (m : MapSt H) (k : Nat) (hk : k < (encodeMap m).length) :
    (mapWrite m ⟨[], k⟩).1.out = .err ∧ (mapWrite m ⟨[], k⟩).1.n ≤ k :=
  (mapWrite_spec ok m ⟨[], k⟩).2 hk

theorem map_chunking (m0 : MapSt H) (r1 r2 : Reader) (h : r1.data = r2.data) :
    mapRead m0 r1 = mapRead m0 r2 :=
  mapRead_chunking m0 r1 r2 h

theorem map_total (m0 : MapSt H) (r : Reader) :
    (mapRead m0 r).out ≠ .panic ∧ (mapRead m0 r).out ≠ .hang :=
  ⟨(mapRead_total m0 r).2, (mapRead_total m0 r).1⟩

end

/-- **C13** (model level): the full statement holds. -/
theorem C13 : C13_statement := by
  intro H _ _ _ ok
  refine ⟨fun F hF => ⟨?_, ?_, ?_, ?_, ?_⟩, fun m hm => ⟨?_, ?_, ?_, ?_⟩, ⟨?_, ?_, ?_, ?_⟩⟩
  · exact fun r hd => pollard_roundtrip ok F hF r hd
  · exact pollard_size ok F
  · exact fun r t ht hd => pollard_prefix ok F (by have := hF.small; omega) r t ht hd
  · exact fun k hk => pollard_sink_ok ok F k hk
  · exact fun k hk => pollard_sink_fail ok F k hk
  · exact fun m0 r hc hn hd => map_roundtrip ok m hm m0 hc hn r hd
  · exact fun m0 r t ht hd => map_prefix ok m hm m0 r t ht hd
  · exact fun k hk => map_sink_ok ok m k hk
  · exact fun k hk => map_sink_fail ok m k hk
  · exact fun r1 r2 h => pollard_chunking r1 r2 h
  · exact fun m0 r1 r2 h => map_chunking m0 r1 r2 h
  · exact fun r => pollard_total r
  · exact fun m0 r => map_total m0 r

-- ---------------------------------------------------------------- non-vacuity

namespace Example

/-- a toy hash type: one byte, padded to 32 bytes on the wire -/
instance : Hasher U8 := ⟨fun a b => a * 31#8 + b + 1#8, 0#8⟩
instance : HashBytes U8 := ⟨fun h => h :: List.replicate 31 0#8, fun bs => bs.headD 0#8⟩

theorem okU8 : HashBytesOK U8 := ⟨fun _ => by simp [toBytes], fun _ => by simp [toBytes, ofBytes]⟩

theorem flatten_singletons {α : Type} (l : List α) : (l.map (fun x => [x])).flatten = l := by
  induction l with
  | nil => rfl
  | cons a l ih => simp [ih]

/-- five slots, one dead: trees `[a b c d]` (slot 1 dead) and `[e]` -/
def F : Forest U8 := ⟨[some 1#8, none, some 3#8, some 4#8, some 5#8]⟩

/-- the hypotheses of the pointer-forest theorems are satisfiable on a non-trivial forest -/
example : LeavesOK F := ⟨by decide, by decide, by decide⟩

/-- … and the conclusion is not trivial: 6 nodes, 220 bytes, and e.g. a one-byte-at-a-time
reader that delivers `io.EOF` with the last byte restores the pointer forest of `F` -/
example : (encodePollard F).length = 220 := by decide +kernel
example : serializeSize (PState.ofForest F) = 220 := by decide +kernel
example : restorePollard ⟨(encodePollard F).map ([·]), true⟩ = ⟨220, .ok (PState.ofForest F)⟩ :=
  pollard_roundtrip okU8 F ⟨by decide, by decide, by decide⟩ _ (by simp [Reader.data, flatten_singletons])
/-- a strict prefix that ends exactly at a node boundary (the last node, an internal one, is cut
off — the stream the unfixed `readOne` accepted with an empty node) is rejected -/
example : (restorePollard (H := U8) (Reader.whole ((encodePollard F).take 186))).out = .err :=
  (pollard_prefix okU8 F (by decide) _ 186 (by decide +kernel) (by simp [Reader.whole, Reader.data])).1

/-- a map state: one cached leaf with its node, plus a root -/
def m : MapSt U8 := ⟨63#8, 2#64, [(7#8, 0#64)], [(0#64, 7#8, true), (1#64, 9#8, false), (5#64, 3#8, false)]⟩

example : MapOK m := ⟨by decide, by decide, by decide, by decide, by decide⟩
example : (encodeMap m).length = 188 := by decide +kernel
example : mapRead MapSt.fresh ⟨(encodeMap m).map ([·]), true⟩ = ⟨188, .ok m⟩ :=
  map_roundtrip okU8 m ⟨by decide, by decide, by decide, by decide, by decide⟩ _ rfl rfl _
    (by simp [Reader.data, flatten_singletons])

end Example

end UtreexoVerif.Props.C13
