/-
  C07 — a cached proof updated from block data alone stays complete and canonical.

  "A light client that holds only the verifier state, a proof and its leaf hashes, and that
  updates them with each block's targets, added hashes, remember indexes and the update data
  returned by the verifier-state update, afterwards holds exactly its previous leaves minus those
  the block deleted plus every added leaf it asked to remember.  Each held leaf is paired with its
  true new position and the proof hashes are exactly the canonical ones, so the proof verifies
  against the new state and equals what a full prover would emit for those leaves."

  Model: `Model/ProofUpdate.lean` (`proofUpdate` = `updateProofRemove` then `updateProofAdd`,
  transliterated from /repo/prove.go `Proof.Update`).  Specification: `Spec.Forest.canon`.

  Levels (helper lemmas in `Proofs/`):
  1. `Proofs/Movement.lean` — deletion movement on the specification (`movePos`, `move_posOf`,
     `move_nodeAt`, `move_surj`); restated here as `deletion_movement_*`.
  2. `Proofs/MoveFold.lean`, `Proofs/MoveDT.lean`, `Proofs/ProofUpdateGnp.lean`,
     `Proofs/ProofUpdateDeTwin.lean` — `getNewPositions` over `deTwin` of the sorted deletion
     targets computes `movePos` (`getNewPositions_movement` here).
  3. `Proofs/MovePP.lean`, `Proofs/ProofUpdateRemove.lean` — `updateProofRemove_canonical`.
  4. `Proofs/AddMove.lean`, `Proofs/ChunkBridge.lean`, `Proofs/AddPP.lean`,
     `Proofs/ProofUpdateRemap.lean`, `Proofs/ProofUpdateAdd.lean` — `updateProofAdd_canonical`.
  5. here: `proofUpdate_canonical` (one valid block, any canonical cached proof, any sorted
     remember indexes), `proofUpdate_with_stump` (with the update data `Stump.Update` returns),
     `client_history` (along a valid history from the empty cached proof).

  The result is stated "as a set of (leaf, position) pairs + the canonical proof hash list": the
  new cached leaves `C'` are a permutation of `(C \ D) ++ remembered adds`, listed by ascending
  position (as Go's `Proof.Update` leaves them), and `(targets, proof)` is `canon` of exactly
  that list.

  Hypothesis on the hash: the one-block theorems (`updateProofRemove_canonical`,
  `updateProofAdd_canonical`, `proofUpdate_canonical`) need only `NZ H` (parent hashes are never
  the zero hash).  The theorems that go through `Stump.Update` (its `NewAdd` is collected in a map
  keyed by hash) exist in two forms: under `CR H` (`proofUpdate_with_stump`, `client_history`, …;
  `CR` is impossible for a finite hash type) and under `NZ H` + the finite, decidable hypotheses
  `NodesDistinct` / `DistinctRun` of `Proofs/NodesUnique.lean` (`proofUpdate_with_stump_nd`,
  `client_history_nd`, `client_history_every_step_nd`; instantiated over a one-byte hash in
  `Props/NZ.lean`).

  Hypothesis on the remember indexes: ascending (`Pairwise (· ≤ ·)`).  For unsorted indexes the
  Go loop silently drops remembered leaves: `unsorted_remembers_drop` (model) below.
-/
import UtreexoVerif.Proofs.ProofUpdateAdd
import UtreexoVerif.Props.C11b
import UtreexoVerif.Props.C02

namespace UtreexoVerif.Props.C07
open UtreexoVerif Spec Spec.Forest Hasher Model
open UtreexoVerif.Proofs UtreexoVerif.Proofs.SpecNodes UtreexoVerif.Proofs.SpecSubs
open UtreexoVerif.Proofs.SpecPlan UtreexoVerif.Proofs.CalcComplete
open UtreexoVerif.Proofs.CalcGeo UtreexoVerif.Proofs.Movement
open UtreexoVerif.Proofs.Sorted
open UtreexoVerif.Proofs.ProofUpdateRemove UtreexoVerif.Proofs.ProofUpdateAdd
open UtreexoVerif.Props.C11 UtreexoVerif.Props.C11del

section
set_option linter.unusedSectionVars false
variable {H : Type} [DecidableEq H] [Hasher H]

/-! ### Level 1: deletion movement on the specification -/

/-- **a surviving leaf `x` at position `p` of `F` sits in `F.delLeaves D` at `movePos F D p`**:
the position obtained from `p` by deleting, for every ancestor level at which the sibling subtree
has no survivor, the corresponding path bit (and moving up one row each time) -/
theorem deletion_movement_posOf {F : Forest H} {D : List H} (hn : F.numLeaves < 2 ^ 64)
    (hnd : F.liveLeaves.Nodup) {x : H} {p : Pos} (hp : F.posOf x = some p) (hx : x ∉ D) :
    (F.delLeaves D).posOf x = some (movePos F D p) := move_posOf hn hnd hp hx

/-- the definition of `movePos`, spelled out: `liftFold 0 p` over the ascending list of the
rows `p.1 ≤ j < h` (`h` the row of the tree of `p`) at which the sibling of the ancestor of `p`
has no survivor; one `liftFold` step on row `j` maps `(r, o)` to `(r + 1, o without bit j - r)` -/
theorem movePos_def (F : Forest H) (D : List H) (p : Pos) :
    movePos F D p =
      FinalPos.liftFold 0 p (deadLevelsOf F D (treeRowOf F.numLeaves p) p) := rfl

theorem mem_deadLevels_iff {F : Forest H} {D : List H} {h : Nat} {p : Pos} {j : Nat} :
    j ∈ deadLevelsOf F D h p ↔
      p.1 ≤ j ∧ j < h ∧ aliveAfter F D j (FinalPos.sibIdx (p.2 / 2 ^ (j - p.1))) = false :=
  mem_deadLevelsOf

/-- **the analogous statement for every node**: the node at `p` (subtree `t`), if a leaf below it
survives, is found in `F.delLeaves D` at `movePos F D p`, with the hash `hashAfter F D p` -/
theorem deletion_movement_nodeAt {F : Forest H} {D : List H} {h : Nat} {p : Pos} {t : CTree H}
    (s : SubAtT F h p t) (hd : delT D t ≠ none) :
    (F.delLeaves D).nodeAt (movePos F D p) = some (hashAfter F D p) := by
  rw [move_nodeAt s hd, hashAfter_eq_valAt, valAt_of s]

/-- **every node of `F.delLeaves D` is a node of `F` that has a surviving leaf below it**, moved;
it can be taken to be the root of its tree or to have a sibling with a survivor -/
theorem deletion_movement_surj {F : Forest H} {D : List H} {h : Nat} {q : Pos} {s' : CTree H}
    (sq : SubAtT (F.delLeaves D) h q s') :
    ∃ p t, SubAtT F h p t ∧ delT D t = some s' ∧ q = movePos F D p ∧
      (p = rootPos F.numLeaves h ∨ aliveAfter F D p.1 (FinalPos.sibIdx p.2) = true) := move_surj sq

/-! ### Level 2: `getNewPositions` computes the movement -/

/-- **`getNewPositions` over `deTwin` of the sorted deletion targets computes `movePos`**: for a
node `p` of `F` that keeps a survivor (non-zero `h`), with `dt = deTwin (sorted encoded positions
of D)`: `getNewPositions dt [(enc p, h)] n true = [(enc (movePos F D p), h)]`; with
`appendRoots = false` the same unless the moved position is a root (then Go drops the entry —
this never happens for proof positions).  An entry with the all-zero hash is dropped. -/
theorem getNewPositions_movement {F : Forest H} (hn : F.numLeaves ≤ 2 ^ 63)
    (hnd : F.liveLeaves.Nodup) {D : List H} (hD : D.Nodup) (hlive : ∀ x ∈ D, x ∈ F.liveLeaves)
    {h0 : Nat} {p : Pos} {t : CTree H} (s : SubAtT F h0 p t) (hal : delT D t ≠ none) (h : H)
    (hh : h ≠ zero) (appendRoots : Bool)
    (hroot : appendRoots = true ∨ isRootPos F.numLeaves (movePos F D p) = false) :
    getNewPositions
        (deTwin (sortU64 ((D.map (fun l => (F.posOf l).getD (0, 0))).map (E F.rows))) (H8 F.rows))
        [(E F.rows p, h)] (BitVec.ofNat 64 F.numLeaves) appendRoots =
      [(E F.rows (movePos F D p), h)] := by
  obtain ⟨dtp, h1, h2, h3⟩ := ProofUpdateDeTwin.deTwin_spec hn hnd hD hlive
  rw [h1]
  have := gnp_apply hn h2 h3 [(p, h)] appendRoots
    (by intro x hx _; simp only [List.mem_singleton] at hx; subst hx; exact ⟨h0, t, s, hal⟩)
    (by
      rcases hroot with hr | hr
      · exact Or.inl hr
      · right; intro x hx _; simp only [List.mem_singleton] at hx; subst hx; exact hr)
  simp only [List.map_cons, List.map_nil, enc2] at this
  rw [this]
  simp [hh, sortHP, sortBy, insertBy]

/-- what `deTwin` of the sorted deletion targets is: the strictly ascending list of the positions
of the maximal fully-deleted subtrees -/
theorem deTwin_maximal_deleted {F : Forest H} (hn : F.numLeaves ≤ 2 ^ 63) (hnd : F.liveLeaves.Nodup)
    {D : List H} (hD : D.Nodup) (hlive : ∀ x ∈ D, x ∈ F.liveLeaves) :
    ∃ dtp : List Pos,
      deTwin (sortU64 ((D.map (fun l => (F.posOf l).getD (0, 0))).map (E F.rows))) (H8 F.rows) =
        dtp.map (E F.rows) ∧
      dtp.Pairwise Sorted.PLt ∧ ∀ T, T ∈ dtp ↔ IsDT F D T :=
  ProofUpdateDeTwin.deTwin_spec hn hnd hD hlive

/-! ### Levels 3 and 4 -/

/-- **Level 3: `updateProofRemove` is canonical** (see `Proofs/ProofUpdateRemove.lean`) -/
theorem updateProofRemove_canonical {F : Forest H} (hn : F.numLeaves ≤ 2 ^ 63)
    (hnz : ∀ a b : H, ph a b ≠ (zero : H)) (hlive : ∀ l ∈ F.liveLeaves, l ≠ (zero : H))
    (hnd : F.liveLeaves.Nodup) {C D : List H} {tgC tgD : List Pos} {hsC hsD : List H}
    (hC : C.Nodup) (hD : D.Nodup)
    (hcC : F.canon C = some (tgC, hsC)) (hcD : F.canon D = some (tgD, hsD)) :
    ∃ K' tgK' hsK', K'.Perm (C.filter (fun x => decide (x ∉ D))) ∧
      (F.delLeaves D).canon K' = some (tgK', hsK') ∧ tgK'.Pairwise Sorted.PLt ∧
      updateProofRemove ⟨tgC.map (E F.rows), hsC⟩ (tgD.map (E F.rows)) C
        (newDelSpec F D tgD) (BitVec.ofNat 64 F.numLeaves) =
        .ok (⟨tgK'.map (E F.rows), hsK'⟩, K') :=
  ProofUpdateRemove.updateProofRemove_canonical hn hnz hlive hnd hC hD hcC hcD

/-- **Level 4: `updateProofAdd` is canonical** (see `Proofs/ProofUpdateAdd.lean`) -/
theorem updateProofAdd_canonical {F : Forest H} {adds : List H} (nz : NZ H)
    (hN : F.numLeaves + adds.length ≤ 2 ^ 63)
    (hndG : (F.addMany adds).liveLeaves.Nodup)
    (hleaf : ∀ x ∈ (F.addMany adds).liveLeaves, x ≠ (zero : H) ∧ ∀ a b : H, x ≠ ph a b)
    {K' : List H} {tgF : List Pos} {hsF : List H} (hcF : F.canon K' = some (tgF, hsF))
    (hsorted : tgF.Pairwise Sorted.PLt)
    {upd : HP H} {td : List U64} (hspec : AddDataSpec F adds upd td)
    (remembers : List Nat) (hrem : remembers.Pairwise (· ≤ ·)) :
    ∃ K'' tgG hsG, K''.Perm (K' ++ remAdds adds remembers) ∧
      (F.addMany adds).canon K'' = some (tgG, hsG) ∧ tgG.Pairwise Sorted.PLt ∧
      updateProofAdd ⟨tgF.map (E F.rows), hsF⟩ adds K' remembers upd
          (BitVec.ofNat 64 F.numLeaves) td =
        .ok (⟨tgG.map (E (F.addMany adds).rows), hsG⟩, K'') :=
  ProofUpdateAdd.updateProofAdd_canonical nz hN hndG hleaf hcF hsorted hspec remembers hrem

/-! ### Level 5: one block -/

/-- what the light client is expected to hold after a block: its previous leaves minus those the
block deleted, plus every added leaf it asked to remember -/
def expected (C D adds : List H) (remembers : List Nat) : List H :=
  C.filter (fun x => decide (x ∉ D)) ++ remAdds adds remembers

section statement
variable (H : Type) [DecidableEq H] [Hasher H]

/-- **C07, one block, full statement.**  `F`: the accumulator before the block (at most `2^63`
leaves after it; live leaves pairwise distinct, non-zero, not parent hashes); the block deletes
the duplicate-free list `D` with canonical proof `(tgD, hsD)` (so the leaves are live) and adds
`adds` (pairwise distinct, non-zero, not parent hashes, different from every leaf that stays
alive); `ud` is an update data whose fields are what C11 says `Stump.Update` returns
(`prevNumLeaves`, `newDel = newDelSpec`, `AddDataSpec` for `NewAdd`/`ToDestroy`); the client holds
the canonical proof `(tgC, hsC)` of a duplicate-free list `C` of live leaves, in any order; the
remember indexes ascend.  Then `Proof.Update` returns, without error, the canonical proof in
`F.modify D adds` of a permutation `C'` of `expected C D adds remembers`, targets ascending, and
`C'` as the new cached hashes. -/
def proofUpdate_statement : Prop :=
  ∀ (F : Forest H) (C D adds : List H) (tgC tgD : List Pos) (hsC hsD : List H)
    (remembers : List Nat) (ud : UpdateDataM H),
    NZ H → F.numLeaves + adds.length ≤ 2 ^ 63 → F.liveLeaves.Nodup →
    (∀ x ∈ F.liveLeaves, x ≠ (zero : H) ∧ ∀ a b : H, x ≠ ph a b) →
    (∀ x ∈ adds, x ≠ (zero : H) ∧ ∀ a b : H, x ≠ ph a b) → adds.Nodup →
    (∀ x ∈ adds, x ∈ F.liveLeaves → x ∈ D) →
    D.Nodup → F.canon D = some (tgD, hsD) →
    C.Nodup → F.canon C = some (tgC, hsC) →
    remembers.Pairwise (· ≤ ·) →
    ud.prevNumLeaves = BitVec.ofNat 64 F.numLeaves →
    ud.newDel = newDelSpec F D tgD →
    AddDataSpec (F.delLeaves D) adds ud.newAdd ud.toDestroy →
    ∃ C' tg' hs', C'.Perm (expected C D adds remembers) ∧
      (F.modify D adds).canon C' = some (tg', hs') ∧ tg'.Pairwise Sorted.PLt ∧
      proofUpdate ⟨tgC.map (E F.rows), hsC⟩ C adds (tgD.map (E F.rows)) remembers ud =
        .ok (⟨tg'.map (E (F.modify D adds).rows), hs'⟩, C')

end statement

/-- **C07 for one block** -/
theorem proofUpdate_canonical : proofUpdate_statement H := by
  intro F C D adds tgC tgD hsC hsD remembers ud nz hN hnd hleaf hadds haddsnd hnew hD hcD hC hcC
    hrem hud1 hud2 hud3
  have hn : F.numLeaves ≤ 2 ^ 63 := by omega
  obtain ⟨K', tgK', hsK', hperm1, hcK', hsorted, hrm⟩ :=
    ProofUpdateRemove.updateProofRemove_canonical hn nz.nonzero (fun l hl => (hleaf l hl).1) hnd hC hD
      hcC hcD
  obtain ⟨g1, g2⟩ := addMany_delLeaves_ok (dels := D) hnd hleaf hadds haddsnd hnew
  have hn' : (F.delLeaves D).numLeaves = F.numLeaves := delLeaves_numLeaves F D
  have hrows : (F.delLeaves D).rows = F.rows := by unfold Forest.rows; rw [hn']
  obtain ⟨K'', tgG, hsG, hperm2, hcG, hsortedG, had⟩ :=
    ProofUpdateAdd.updateProofAdd_canonical (F := F.delLeaves D) nz (by rw [hn']; exact hN) g1 g2 hcK'
      hsorted hud3 remembers hrem
  refine ⟨K'', tgG, hsG, ?_, hcG, hsortedG, ?_⟩
  · exact hperm2.trans (List.Perm.append_right _ hperm1)
  · unfold proofUpdate
    rw [hud1, hud2, hrm]
    rw [hrows, hn'] at had
    exact had

/-! ### Level 5: with the update data returned by `Stump.Update` -/

/-- Go's `UpdateData` as `Proof.Update` receives it -/
def toM (ud : UpdateData H) : UpdateDataM H :=
  { toDestroy := ud.toDestroy, prevNumLeaves := ud.prevNumLeaves, newDel := ud.newDel,
    newAdd := ud.newAdd }

/-- **C07 for one block, fed by the verifier-state update**: `Stump.Update` on the block (with
the canonical deletion proof, arbitrary hashes appended) accepts, ends with the stump of
`F.modify D adds`, and the update data it returns makes `Proof.Update` produce the canonical
proof of the expected leaves. -/
theorem proofUpdate_with_stump (cr : CR H) (nonZero : H) (hnz : nonZero ≠ (zero : H))
    (F : Forest H) (C D adds : List H) (tgC tgD : List Pos) (hsC hsD junk : List H)
    (remembers : List Nat)
    (hN : F.numLeaves + adds.length ≤ 2 ^ 63) (hnd : F.liveLeaves.Nodup)
    (hleaf : ∀ x ∈ F.liveLeaves, x ≠ (zero : H) ∧ ∀ a b : H, x ≠ ph a b)
    (hadds : ∀ x ∈ adds, x ≠ (zero : H) ∧ ∀ a b : H, x ≠ ph a b) (haddsnd : adds.Nodup)
    (hnew : ∀ x ∈ adds, x ∈ F.liveLeaves → x ∈ D)
    (hD : D.Nodup) (hcD : F.canon D = some (tgD, hsD))
    (hC : C.Nodup) (hcC : F.canon C = some (tgC, hsC))
    (hrem : remembers.Pairwise (· ≤ ·)) :
    ∃ (ud : UpdateData H) (C' : List H) (tg' : List Pos) (hs' : List H),
      (C01b.stumpOf F).update nonZero D adds (C01.encTargets F.rows tgD) (hsD ++ junk) =
        .ok (C01b.stumpOf (F.modify D adds), ud) ∧
      C'.Perm (expected C D adds remembers) ∧
      (F.modify D adds).canon C' = some (tg', hs') ∧ tg'.Pairwise Sorted.PLt ∧
      proofUpdate ⟨tgC.map (E F.rows), hsC⟩ C adds (C01.encTargets F.rows tgD) remembers (toM ud) =
        .ok (⟨tg'.map (E (F.modify D adds).rows), hs'⟩, C') := by
  obtain ⟨ud, h1, h2, h3, h4⟩ := stump_update_data cr nonZero hnz F (C01b.stumpOf F) D adds tgD hsD
    junk rfl rfl hN hnd hleaf hadds haddsnd hnew hD hcD
  obtain ⟨C', tg', hs', g1, g2, g3, g4⟩ := proofUpdate_canonical F C D adds tgC tgD hsC hsD remembers
    (toM ud) cr.toNZ hN hnd hleaf hadds haddsnd hnew hD hcD hC hcC hrem h2 h3 h4
  exact ⟨ud, C', tg', hs', h1, g1, g2, g3, g4⟩

/-! ### Level 5: along a valid history -/

/-- a block as the light client sees it: deleted leaves, added leaves, remember indexes -/
abbrev CBlock (H : Type) := List H × List H × List Nat

/-- the block without the remember indexes -/
def toBlock (b : CBlock H) : Block H := (b.1, b.2.1)

/-- the light client: at every block it receives the block's targets (positions of the deleted
leaves in the order of the block), the added hashes, the remember indexes and the update data
returned by `Stump.Update` on the block with its canonical deletion proof; it keeps `(proof,
cached hashes)` -/
def clientRun (nonZero : H) :
    Forest H → CProof H × List H → List (CBlock H) → Option (CProof H × List H)
  | _, c, [] => some c
  | F, c, b :: rest =>
    match F.canon b.1 with
    | none => none
    | some (targets, proof) =>
      match (C01b.stumpOf F).update nonZero b.1 b.2.1 (C01.encTargets F.rows targets) proof with
      | .ok (_, ud) =>
        match proofUpdate c.1 c.2 b.2.1 (C01.encTargets F.rows targets) b.2.2 (toM ud) with
        | .ok c' => clientRun nonZero (F.modify b.1 b.2.1) c' rest
        | _ => none
      | _ => none

/-- the leaves the client is expected to hold after a history -/
def expectedRun : List H → List (CBlock H) → List H
  | C, [] => C
  | C, b :: rest => expectedRun (expected C b.1 b.2.1 b.2.2) rest

/-- the invariant of the induction along the history -/
structure Inv (F : Forest H) (hist : List (CBlock H)) : Prop where
  ok : C01.HistOK F (hist.map toBlock)
  live : LiveDels F (hist.map toBlock)
  dnd : C01.NodupDels (hist.map toBlock)
  leafF : ∀ x ∈ F.liveLeaves, ∀ a b : H, x ≠ ph a b
  leafA : ∀ x ∈ allAdds (hist.map toBlock), ∀ a b : H, x ≠ ph a b
  rems : ∀ b ∈ hist, b.2.2.Pairwise (· ≤ ·)

theorem Inv.step {F : Forest H} {d a : List H} {r : List Nat} {rest : List (CBlock H)}
    (inv : Inv F ((d, a, r) :: rest)) : Inv (F.modify d a) rest where
  ok := C01.HistOK.step (d := d) (a := a) inv.ok
  live := inv.live.2
  dnd := fun b hb => inv.dnd b (List.mem_cons_of_mem _ hb)
  leafF := by
    intro x hx
    rcases LiveLeaves.mem_liveLeaves_modify.1 hx with ⟨h, _⟩ | h
    · exact inv.leafF x h
    · exact inv.leafA x (by
        simp only [List.map_cons, toBlock, allAdds_cons]
        exact List.mem_append_left _ h)
  leafA := by
    intro x hx
    exact inv.leafA x (by
      simp only [List.map_cons, toBlock, allAdds_cons]
      exact List.mem_append_right _ hx)
  rems := fun b hb => inv.rems b (List.mem_cons_of_mem _ hb)

theorem expectedRun_perm : ∀ (hist : List (CBlock H)) (C1 C2 : List H), C1.Perm C2 →
    (expectedRun C1 hist).Perm (expectedRun C2 hist) := by
  intro hist
  induction hist with
  | nil => intro C1 C2 h; exact h
  | cons b rest ih =>
    intro C1 C2 h
    exact ih _ _ (List.Perm.append_right _ (h.filter _))

section statement2
variable (H : Type) [DecidableEq H] [Hasher H]

/-- **C07 along a history, full statement** (proved: `client_history`) -/
def client_history_statement : Prop :=
  ∀ (nonZero : H) (hist : List (CBlock H)), CR H → nonZero ≠ (zero : H) →
    C01.ValidHistory (hist.map toBlock) → (∀ b ∈ hist, b.2.2.Pairwise (· ≤ ·)) →
    ∃ C tg hs,
      clientRun nonZero Forest.empty (⟨[], []⟩, []) hist =
        some (⟨tg.map (E (run Forest.empty (hist.map toBlock)).rows), hs⟩, C) ∧
      (run Forest.empty (hist.map toBlock)).canon C = some (tg, hs) ∧
      C.Perm (expectedRun [] hist)

end statement2

/-- the induction: from any accumulator and any canonical cached proof -/
theorem client_from (cr : CR H) (nonZero : H) (hnz : nonZero ≠ (zero : H)) :
    ∀ (hist : List (CBlock H)) (F : Forest H) (C Cexp : List H) (tg : List Pos) (hs : List H),
      Inv F hist → C.Nodup → F.canon C = some (tg, hs) → C.Perm Cexp →
      ∃ C' tg' hs',
        clientRun nonZero F (⟨tg.map (E F.rows), hs⟩, C) hist =
          some (⟨tg'.map (E (run F (hist.map toBlock)).rows), hs'⟩, C') ∧
        (run F (hist.map toBlock)).canon C' = some (tg', hs') ∧
        C'.Perm (expectedRun Cexp hist) := by
  intro hist
  induction hist with
  | nil =>
    intro F C Cexp tg hs _ _ hc hp
    exact ⟨C, tg, hs, rfl, hc, hp⟩
  | cons b rest ih =>
    obtain ⟨d, a, r⟩ := b
    intro F C Cexp tg hs inv hC hc hp
    have hsm := inv.ok.small
    simp only [List.map_cons, toBlock, allAdds_cons, List.length_append] at hsm
    have hN : F.numLeaves + a.length ≤ 2 ^ 63 := by omega
    have hand := inv.ok.adds_nodup
    simp only [List.map_cons, toBlock, allAdds_cons] at hand
    have hleaf : ∀ x ∈ F.liveLeaves, x ≠ (zero : H) ∧ ∀ p q : H, x ≠ ph p q :=
      fun x hx => ⟨inv.ok.live_nonzero x hx, inv.leafF x hx⟩
    have hadds : ∀ x ∈ a, x ≠ (zero : H) ∧ ∀ p q : H, x ≠ ph p q := by
      intro x hx
      have hm : x ∈ allAdds (((d, a, r) :: rest).map toBlock) := by
        simp only [List.map_cons, toBlock, allAdds_cons]
        exact List.mem_append_left _ hx
      exact ⟨inv.ok.adds_nonzero x hm, inv.leafA x hm⟩
    have hnew : ∀ x ∈ a, x ∈ F.liveLeaves → x ∈ d := by
      intro x hx hl
      exact absurd hl (inv.ok.adds_new x (by
        simp only [List.map_cons, toBlock, allAdds_cons]
        exact List.mem_append_left _ hx))
    have hD : d.Nodup := inv.dnd (d, a) (by simp [toBlock])
    obtain ⟨tgD, hsD, hcD⟩ := C02.canon_defined (L := d) (by omega : F.numLeaves ≤ 2 ^ 63) inv.live.1
    obtain ⟨ud, C', tg', hs', h1, h2, h3, h4, h5⟩ := proofUpdate_with_stump cr nonZero hnz F C d a tg
      tgD hs hsD [] r hN inv.ok.live_nodup hleaf hadds (List.nodup_append.1 hand).1 hnew hD hcD hC hc
      (inv.rems (d, a, r) (by simp))
    rw [List.append_nil] at h1
    have hC' : C'.Nodup := by
      have := h4
      rw [canon_targets_eq h3, List.pairwise_map] at this
      exact this.imp (fun {x y} hxy e => by rw [e] at hxy; exact PLt.irrefl _ hxy)
    obtain ⟨C'', tg'', hs'', g1, g2, g3⟩ := ih (F.modify d a) C' (expected Cexp d a r) tg' hs'
      inv.step hC' h3 (h2.trans (List.Perm.append_right _ (hp.filter _)))
    refine ⟨C'', tg'', hs'', ?_, g2, g3⟩
    rw [clientRun]
    dsimp only
    rw [hcD]
    dsimp only
    rw [h1]
    dsimp only
    rw [h5]
    exact g1

/-- **C07 along a valid history**: starting from the EMPTY cached proof, with an arbitrary
ascending list of remember indexes per block, the client holds at the end (hence, by taking
prefixes, at every step) the canonical proof of the expected leaves — every previously held leaf
that was not deleted plus every added leaf it asked to remember — each paired with its true
position in the specification forest `run empty hist`. -/
theorem client_history (cr : CR H) (nonZero : H) (hnz : nonZero ≠ (zero : H))
    (hist : List (CBlock H)) (v : C01.ValidHistory (hist.map toBlock))
    (hrem : ∀ b ∈ hist, b.2.2.Pairwise (· ≤ ·)) :
    ∃ C tg hs,
      clientRun nonZero Forest.empty (⟨[], []⟩, []) hist =
        some (⟨tg.map (E (run Forest.empty (hist.map toBlock)).rows), hs⟩, C) ∧
      (run Forest.empty (hist.map toBlock)).canon C = some (tg, hs) ∧
      C.Perm (expectedRun [] hist) := by
  have inv : Inv (Forest.empty : Forest H) hist :=
    { ok := ⟨List.nodup_nil, fun x hx => (by cases hx), v.adds_nodup, fun x _ hx => (by cases hx),
        fun x hx => (v.adds_leaf x hx).1, (by show 0 + _ ≤ _; have := v.small; omega)⟩
      live := v.live
      dnd := v.dels_nodup
      leafF := fun x hx => (by cases hx)
      leafA := fun x hx => (v.adds_leaf x hx).2
      rems := hrem }
  have hc0 : (Forest.empty : Forest H).canon [] = some ([], []) := rfl
  obtain ⟨C, tg, hs, h1, h2, h3⟩ := client_from cr nonZero hnz hist Forest.empty [] [] [] []
    inv List.nodup_nil hc0 (List.Perm.refl _)
  exact ⟨C, tg, hs, h1, h2, h3⟩

theorem C07_history : client_history_statement H :=
  fun nonZero hist cr hnz v hrem => client_history cr nonZero hnz hist v hrem

/-- a prefix of a valid history is a valid history -/
theorem validHistory_prefix {pre post : List (Block H)} (v : C01.ValidHistory (pre ++ post)) :
    C01.ValidHistory pre where
  live := (C01.liveDels_append.1 v.live).1
  dels_nodup := fun b hb => v.dels_nodup b (List.mem_append_left _ hb)
  adds_nodup := by
    have := v.adds_nodup
    rw [allAdds_append] at this
    exact (List.nodup_append.1 this).1
  adds_leaf := fun x hx => v.adds_leaf x (by rw [allAdds_append]; exact List.mem_append_left _ hx)
  small := by
    have := v.small
    rw [allAdds_append, List.length_append] at this
    omega

/-- **C07 at every step of a valid history**: after the first `k` blocks (any `k`) the client
holds the canonical proof, in the specification forest reached by those blocks, of the leaves it
is expected to hold at that point -/
theorem client_history_every_step (cr : CR H) (nonZero : H) (hnz : nonZero ≠ (zero : H))
    (hist : List (CBlock H)) (v : C01.ValidHistory (hist.map toBlock))
    (hrem : ∀ b ∈ hist, b.2.2.Pairwise (· ≤ ·)) (k : Nat) :
    ∃ C tg hs,
      clientRun nonZero Forest.empty (⟨[], []⟩, []) (hist.take k) =
        some (⟨tg.map (E (run Forest.empty ((hist.take k).map toBlock)).rows), hs⟩, C) ∧
      (run Forest.empty ((hist.take k).map toBlock)).canon C = some (tg, hs) ∧
      C.Perm (expectedRun [] (hist.take k)) := by
  apply client_history cr nonZero hnz
  · have e : hist.map toBlock = (hist.take k).map toBlock ++ (hist.drop k).map toBlock := by
      rw [← List.map_append, List.take_append_drop]
    rw [e] at v
    exact validHistory_prefix v
  · exact fun b hb => hrem b (List.mem_of_mem_take hb)

/-! ### Level 5 for a hash that is NOT collision-free

`CR H` (impossible for a finite hash type) is replaced by `NZ H` (parent hashes are never the zero
hash) and FINITE hypotheses about the forests at hand: `NodesDistinct G` for the forest `G` after
the block (no non-zero hash sits at two places of `G`), `DistinctRun` for every forest reached
along a history (`Proofs/NodesUnique.lean`; decidable, implied by `CR`, and a violation is an
explicit collision).  `Stump.Update` collects `NewAdd` in a map keyed by hash, hence the need. -/

/-- **C07 for one block, fed by the verifier-state update, without collision-freeness** -/
theorem proofUpdate_with_stump_nd (nz : NZ H) (nonZero : H) (hnz : nonZero ≠ (zero : H))
    (F : Forest H) (C D adds : List H) (tgC tgD : List Pos) (hsC hsD junk : List H)
    (remembers : List Nat)
    (hN : F.numLeaves + adds.length ≤ 2 ^ 63) (hnd : F.liveLeaves.Nodup)
    (hleaf : ∀ x ∈ F.liveLeaves, x ≠ (zero : H) ∧ ∀ a b : H, x ≠ ph a b)
    (hadds : ∀ x ∈ adds, x ≠ (zero : H) ∧ ∀ a b : H, x ≠ ph a b) (haddsnd : adds.Nodup)
    (hnew : ∀ x ∈ adds, x ∈ F.liveLeaves → x ∈ D)
    (hD : D.Nodup) (hcD : F.canon D = some (tgD, hsD))
    (hC : C.Nodup) (hcC : F.canon C = some (tgC, hsC))
    (hrem : remembers.Pairwise (· ≤ ·))
    (hd : NodesDistinct (F.modify D adds)) :
    ∃ (ud : UpdateData H) (C' : List H) (tg' : List Pos) (hs' : List H),
      (C01b.stumpOf F).update nonZero D adds (C01.encTargets F.rows tgD) (hsD ++ junk) =
        .ok (C01b.stumpOf (F.modify D adds), ud) ∧
      C'.Perm (expected C D adds remembers) ∧
      (F.modify D adds).canon C' = some (tg', hs') ∧ tg'.Pairwise Sorted.PLt ∧
      proofUpdate ⟨tgC.map (E F.rows), hsC⟩ C adds (C01.encTargets F.rows tgD) remembers (toM ud) =
        .ok (⟨tg'.map (E (F.modify D adds).rows), hs'⟩, C') := by
  obtain ⟨ud, h1, h2, h3, h4⟩ := stump_update_data_nd nz nonZero hnz F (C01b.stumpOf F) D adds tgD hsD
    junk rfl rfl hN hnd (fun x hx => (hleaf x hx).1) (fun x hx => (hadds x hx).1) hD hcD hd
  obtain ⟨C', tg', hs', g1, g2, g3, g4⟩ := proofUpdate_canonical F C D adds tgC tgD hsC hsD remembers
    (toM ud) nz hN hnd hleaf hadds haddsnd hnew hD hcD hC hcC hrem h2 h3 h4
  exact ⟨ud, C', tg', hs', h1, g1, g2, g3, g4⟩

/-- the induction of `client_from`, without collision-freeness -/
theorem client_from_nd (nz : NZ H) (nonZero : H) (hnz : nonZero ≠ (zero : H)) :
    ∀ (hist : List (CBlock H)) (F : Forest H) (C Cexp : List H) (tg : List Pos) (hs : List H),
      Inv F hist → DistinctRun F (hist.map toBlock) →
      C.Nodup → F.canon C = some (tg, hs) → C.Perm Cexp →
      ∃ C' tg' hs',
        clientRun nonZero F (⟨tg.map (E F.rows), hs⟩, C) hist =
          some (⟨tg'.map (E (run F (hist.map toBlock)).rows), hs'⟩, C') ∧
        (run F (hist.map toBlock)).canon C' = some (tg', hs') ∧
        C'.Perm (expectedRun Cexp hist) := by
  intro hist
  induction hist with
  | nil =>
    intro F C Cexp tg hs _ _ _ hc hp
    exact ⟨C, tg, hs, rfl, hc, hp⟩
  | cons b rest ih =>
    obtain ⟨d, a, r⟩ := b
    intro F C Cexp tg hs inv hdr hC hc hp
    have hsm := inv.ok.small
    simp only [List.map_cons, toBlock, allAdds_cons, List.length_append] at hsm
    have hN : F.numLeaves + a.length ≤ 2 ^ 63 := by omega
    have hand := inv.ok.adds_nodup
    simp only [List.map_cons, toBlock, allAdds_cons] at hand
    have hleaf : ∀ x ∈ F.liveLeaves, x ≠ (zero : H) ∧ ∀ p q : H, x ≠ ph p q :=
      fun x hx => ⟨inv.ok.live_nonzero x hx, inv.leafF x hx⟩
    have hadds : ∀ x ∈ a, x ≠ (zero : H) ∧ ∀ p q : H, x ≠ ph p q := by
      intro x hx
      have hm : x ∈ allAdds (((d, a, r) :: rest).map toBlock) := by
        simp only [List.map_cons, toBlock, allAdds_cons]
        exact List.mem_append_left _ hx
      exact ⟨inv.ok.adds_nonzero x hm, inv.leafA x hm⟩
    have hnew : ∀ x ∈ a, x ∈ F.liveLeaves → x ∈ d := by
      intro x hx hl
      exact absurd hl (inv.ok.adds_new x (by
        simp only [List.map_cons, toBlock, allAdds_cons]
        exact List.mem_append_left _ hx))
    have hD : d.Nodup := inv.dnd (d, a) (by simp [toBlock])
    obtain ⟨tgD, hsD, hcD⟩ := C02.canon_defined (L := d) (by omega : F.numLeaves ≤ 2 ^ 63) inv.live.1
    obtain ⟨ud, C', tg', hs', h1, h2, h3, h4, h5⟩ := proofUpdate_with_stump_nd nz nonZero hnz F C d a tg
      tgD hs hsD [] r hN inv.ok.live_nodup hleaf hadds (List.nodup_append.1 hand).1 hnew hD hcD hC hc
      (inv.rems (d, a, r) (by simp)) hdr.1
    rw [List.append_nil] at h1
    have hC' : C'.Nodup := by
      have := h4
      rw [canon_targets_eq h3, List.pairwise_map] at this
      exact this.imp (fun {x y} hxy e => by rw [e] at hxy; exact PLt.irrefl _ hxy)
    obtain ⟨C'', tg'', hs'', g1, g2, g3⟩ := ih (F.modify d a) C' (expected Cexp d a r) tg' hs'
      inv.step hdr.2 hC' h3 (h2.trans (List.Perm.append_right _ (hp.filter _)))
    refine ⟨C'', tg'', hs'', ?_, g2, g3⟩
    rw [clientRun]
    dsimp only
    rw [hcD]
    dsimp only
    rw [h1]
    dsimp only
    rw [h5]
    exact g1

/-- **C07 along a valid history, without collision-freeness**: `NZ H`, and every forest reached
along the history has pairwise distinct non-zero node hashes (`DistinctRun`). -/
theorem client_history_nd (nz : NZ H) (nonZero : H) (hnz : nonZero ≠ (zero : H))
    (hist : List (CBlock H)) (v : C01.ValidHistory (hist.map toBlock))
    (hrem : ∀ b ∈ hist, b.2.2.Pairwise (· ≤ ·))
    (hdr : DistinctRun Forest.empty (hist.map toBlock)) :
    ∃ C tg hs,
      clientRun nonZero Forest.empty (⟨[], []⟩, []) hist =
        some (⟨tg.map (E (run Forest.empty (hist.map toBlock)).rows), hs⟩, C) ∧
      (run Forest.empty (hist.map toBlock)).canon C = some (tg, hs) ∧
      C.Perm (expectedRun [] hist) := by
  have inv : Inv (Forest.empty : Forest H) hist :=
    { ok := ⟨List.nodup_nil, fun x hx => (by cases hx), v.adds_nodup, fun x _ hx => (by cases hx),
        fun x hx => (v.adds_leaf x hx).1, (by show 0 + _ ≤ _; have := v.small; omega)⟩
      live := v.live
      dnd := v.dels_nodup
      leafF := fun x hx => (by cases hx)
      leafA := fun x hx => (v.adds_leaf x hx).2
      rems := hrem }
  have hc0 : (Forest.empty : Forest H).canon [] = some ([], []) := rfl
  obtain ⟨C, tg, hs, h1, h2, h3⟩ := client_from_nd nz nonZero hnz hist Forest.empty [] [] [] []
    inv hdr List.nodup_nil hc0 (List.Perm.refl _)
  exact ⟨C, tg, hs, h1, h2, h3⟩

/-- **C07 at every step of a valid history, without collision-freeness** -/
theorem client_history_every_step_nd (nz : NZ H) (nonZero : H) (hnz : nonZero ≠ (zero : H))
    (hist : List (CBlock H)) (v : C01.ValidHistory (hist.map toBlock))
    (hrem : ∀ b ∈ hist, b.2.2.Pairwise (· ≤ ·))
    (hdr : DistinctRun Forest.empty (hist.map toBlock)) (k : Nat) :
    ∃ C tg hs,
      clientRun nonZero Forest.empty (⟨[], []⟩, []) (hist.take k) =
        some (⟨tg.map (E (run Forest.empty ((hist.take k).map toBlock)).rows), hs⟩, C) ∧
      (run Forest.empty ((hist.take k).map toBlock)).canon C = some (tg, hs) ∧
      C.Perm (expectedRun [] (hist.take k)) := by
  have e : hist.map toBlock = (hist.take k).map toBlock ++ (hist.drop k).map toBlock := by
    rw [← List.map_append, List.take_append_drop]
  apply client_history_nd nz nonZero hnz
  · rw [e] at v
    exact validHistory_prefix v
  · exact fun b hb => hrem b (List.mem_of_mem_take hb)
  · rw [e] at hdr
    exact (distinctRun_append.1 hdr).1

/-! ### non-vacuity; the model simply evaluated; the unsorted-remembers finding -/

namespace Example
open UtreexoVerif.Props.C01 UtreexoVerif.Props.C01.Example UtreexoVerif.Props.C11.Example

/-- `F3'` = three live leaves `1 2 3` (trees `{1,2}` and `{3}`).  The client caches leaves 2 and 3
(requested in that order): positions `(0,1)`, `(0,2)`, one proof hash (leaf 1) -/
theorem canonC : F3'.canon [T.leaf 2, .leaf 3] = some ([(0, 1), (0, 2)], [T.leaf 1]) := by
  decide +kernel

theorem F3'_live (x : T) (hx : x ∈ F3'.liveLeaves) : x ≠ (zero : T) ∧ ∀ a b : T, x ≠ ph a b := by
  have : x = .leaf 1 ∨ x = .leaf 2 ∨ x = .leaf 3 := by simpa [F3', Forest.liveLeaves] using hx
  rcases this with rfl | rfl | rfl <;> exact leafT _

/-- **`proofUpdate_with_stump` applies**: the block deletes leaves 3 and 1 (emptying the tree on
row 0 and collapsing the tree on row 1: leaf 2 moves up) and adds leaves 4 and 5 (leaf 4 merges
over the empty root; the forest grows to 3 rows); the client asks to remember index 1 (leaf 5) -/
example : ∃ (ud : UpdateData T) (C' : List T) (tg' : List Pos) (hs' : List T),
    (C01b.stumpOf F3').update (T.leaf 0) [T.leaf 3, .leaf 1] [T.leaf 4, .leaf 5]
        (encTargets F3'.rows [(0, 2), (0, 0)]) ([T.leaf 2] ++ [T.leaf 99]) =
      .ok (C01b.stumpOf (F3'.modify [T.leaf 3, .leaf 1] [T.leaf 4, .leaf 5]), ud) ∧
    C'.Perm (expected [T.leaf 2, .leaf 3] [T.leaf 3, .leaf 1] [T.leaf 4, .leaf 5] [1]) ∧
    (F3'.modify [T.leaf 3, .leaf 1] [T.leaf 4, .leaf 5]).canon C' = some (tg', hs') ∧
    tg'.Pairwise Sorted.PLt ∧
    proofUpdate ⟨[(0, 1), (0, 2)].map (E F3'.rows), [T.leaf 1]⟩ [T.leaf 2, .leaf 3]
        [T.leaf 4, .leaf 5] (encTargets F3'.rows [(0, 2), (0, 0)]) [1] (toM ud) =
      .ok (⟨tg'.map (E (F3'.modify [T.leaf 3, .leaf 1] [T.leaf 4, .leaf 5]).rows), hs'⟩, C') :=
  proofUpdate_with_stump cr (T.leaf 0) (by intro h; cases h) F3' _ _ _ _ _ _ _ [T.leaf 99] [1]
    (by decide) (by decide) F3'_live
    (by intro x hx
        have : x = .leaf 4 ∨ x = .leaf 5 := by simpa using hx
        rcases this with rfl | rfl <;> exact leafT _)
    (by decide)
    (by intro x hx hx'
        have h1 : x = .leaf 4 ∨ x = .leaf 5 := by simpa using hx
        have h2 : x = .leaf 1 ∨ x = .leaf 2 ∨ x = .leaf 3 := by
          simpa [F3', Forest.liveLeaves] using hx'
        rcases h1 with rfl | rfl <;> rcases h2 with h | h | h <;> cases h)
    (by decide) canon3 (by decide) canonC (by decide)

/-- the update data of that block, as the model of `Stump.Update` computes it -/
def ud3 : UpdateDataM T :=
  { toDestroy := [2#64], prevNumLeaves := 3#64,
    newDel := [(0#64, T.z), (2#64, T.z), (4#64, T.leaf 2)],
    newAdd := [(4#64, T.leaf 5), (8#64, T.leaf 2), (9#64, T.leaf 4)] }

example : ((C01b.stumpOf F3').update (T.leaf 0) [T.leaf 3, .leaf 1] [T.leaf 4, .leaf 5]
      (encTargets F3'.rows [(0, 2), (0, 0)]) [T.leaf 2]).toOption.map
        (fun r => ((toM r.2).toDestroy, (toM r.2).prevNumLeaves, (toM r.2).newDel, (toM r.2).newAdd)) =
    some (ud3.toDestroy, ud3.prevNumLeaves, ud3.newDel, ud3.newAdd) := by decide +kernel

/-- the model, simply run: the client ends with leaf 5 at position 4 and leaf 2 at position 8
(= `(1,0)` of the 3-row forest), proof `[leaf 4]` … -/
example : proofUpdate (H := T) ⟨[1#64, 2#64], [T.leaf 1]⟩ [T.leaf 2, .leaf 3] [T.leaf 4, .leaf 5]
    [2#64, 0#64] [1] ud3 = .ok (⟨[4#64, 8#64], [T.leaf 4]⟩, [T.leaf 5, .leaf 2]) := by
  decide +kernel

/-- … which is the canonical proof of those leaves after the block -/
example : (F3'.modify [T.leaf 3, .leaf 1] [T.leaf 4, .leaf 5]).canon [T.leaf 5, .leaf 2] =
    some ([(0, 4), (1, 0)], [T.leaf 4]) := by decide +kernel

/-- the three-block history of `Props/C01d.lean` with remember indexes: block 1 adds `1 2 3`
(remember leaf 2); block 2 deletes leaf 3 and adds `4 5` (remember both); block 3 deletes leaves
1 and 4 and adds leaf 6 (remember nothing) -/
def histR : List (CBlock T) :=
  [([], [.leaf 1, .leaf 2, .leaf 3], [1]), ([.leaf 3], [.leaf 4, .leaf 5], [0, 1]),
   ([.leaf 1, .leaf 4], [.leaf 6], [])]

theorem histR_blocks : histR.map toBlock = histC := rfl

/-- **`client_history` applies** -/
example : ∃ C tg hs,
    clientRun (T.leaf 0) Forest.empty (⟨[], []⟩, []) histR =
      some (⟨tg.map (E (run Forest.empty (histR.map toBlock)).rows), hs⟩, C) ∧
    (run Forest.empty (histR.map toBlock)).canon C = some (tg, hs) ∧
    C.Perm (expectedRun [] histR) :=
  client_history cr (T.leaf 0) (by intro h; cases h) histR (by rw [histR_blocks]; exact histC_valid)
    (by
      intro b hb
      simp only [histR, List.mem_cons, List.not_mem_nil, or_false] at hb
      rcases hb with rfl | rfl | rfl <;> decide)

/-- the model simply run along that history, after 1, 2 and 3 blocks: the client holds leaf 2;
then leaves 2, 5, 4; then leaves 5 and 2 (leaf 4 was deleted) -/
example : clientRun (T.leaf 0) Forest.empty (⟨[], []⟩, []) (histR.take 1) =
    some (⟨[1#64], [T.leaf 1]⟩, [T.leaf 2]) := by decide +kernel
example : clientRun (T.leaf 0) Forest.empty (⟨[], []⟩, []) (histR.take 2) =
    some (⟨[1#64, 4#64, 9#64], [T.leaf 1]⟩, [T.leaf 2, .leaf 5, .leaf 4]) := by decide +kernel
example : clientRun (T.leaf 0) Forest.empty (⟨[], []⟩, []) histR =
    some (⟨[4#64, 12#64], [T.leaf 6]⟩, [T.leaf 5, .leaf 2]) := by decide +kernel
example : expectedRun [] histR = [T.leaf 2, .leaf 5] := by decide
example : (run Forest.empty (histR.map toBlock)).canon [T.leaf 5, .leaf 2] =
    some ([(0, 4), (2, 0)], [T.leaf 6]) := by decide +kernel

/-- **Finding: remember indexes that do not ascend are silently dropped.**  The same block as
above with `remembers = [1, 0]` (the client asks for both added leaves, listing index 1 first):
`Proof.Update` returns without error but the client ends WITHOUT leaf 4 — the loop in
`updateProofAdd` walks `adds` and `remembers` with two cursors and skips a remember index that
is smaller than the current add index.  The Go code behaves identically (checked on /repo:
`remembers=[1 0]` gives targets `[4 8]`, cached hashes `5 2`).  So the property holds under the
input contract "remember indexes ascending" (the order in which a caller naturally produces them)
and fails outside it. -/
theorem unsorted_remembers_drop :
    proofUpdate (H := T) ⟨[1#64, 2#64], [T.leaf 1]⟩ [T.leaf 2, .leaf 3] [T.leaf 4, .leaf 5]
        [2#64, 0#64] [1, 0] ud3 = .ok (⟨[4#64, 8#64], [T.leaf 4]⟩, [T.leaf 5, .leaf 2]) ∧
    T.leaf 4 ∈ expected [T.leaf 2, .leaf 3] [T.leaf 3, .leaf 1] [T.leaf 4, .leaf 5] [1, 0] ∧
    T.leaf 4 ∉ [T.leaf 5, T.leaf 2] := by
  refine ⟨by decide +kernel, by decide, by decide⟩

/-- with the indexes ascending the same request is honoured -/
example : proofUpdate (H := T) ⟨[1#64, 2#64], [T.leaf 1]⟩ [T.leaf 2, .leaf 3] [T.leaf 4, .leaf 5]
    [2#64, 0#64] [0, 1] ud3 = .ok (⟨[4#64, 8#64, 9#64], []⟩, [T.leaf 5, .leaf 2, .leaf 4]) := by
  decide +kernel

/-! the eleven-slot forest `F11` of `Props/C11del.lean` (trees on rows 3, 1, 0; leaves 6, 7 at
`(1,2)`, `(1,3)`, leaf 0 at `(1,0)`, leaves 2, 3 at `(0,2)`, `(0,3)`); the block deletes leaves
9, 3, 10, 6 -/

open UtreexoVerif.Props.C11del.Example in
/-- level 1: leaf 7 loses its sibling (leaf 6) and moves from `(1,3)` to `(2,1)`; leaf 2 loses its
sibling (leaf 3) and moves from `(0,2)` to `(1,1)` -/
example : movePos F11 L11 (1, 3) = (2, 1) ∧ movePos F11 L11 (0, 2) = (1, 1) ∧
    (F11.delLeaves L11).posOf (C03.Example.T.leaf 7) = some (2, 1) ∧
    (F11.delLeaves L11).posOf (C03.Example.T.leaf 2) = some (1, 1) := by decide +kernel

open UtreexoVerif.Props.C11del.Example in
/-- `deletion_movement_posOf` applies -/
example : (F11.delLeaves L11).posOf (C03.Example.T.leaf 7) = some (movePos F11 L11 (1, 3)) :=
  deletion_movement_posOf (by decide) (by decide) (by decide +kernel) (by decide)

open UtreexoVerif.Props.C11del.Example in
/-- level 2: `deTwin` of the sorted targets `[3, 9, 10, 18]` and `getNewPositions` on the
positions of leaf 7 (19) and leaf 2 (2) -/
example : deTwin [3#64, 9#64, 10#64, 18#64] 4#8 = [3#64, 9#64, 10#64, 18#64] ∧
    getNewPositions [3#64, 9#64, 10#64, 18#64] [(2#64, T.leaf 2), (19#64, T.leaf 7)] 11#64 true =
      [(17#64, T.leaf 2), (25#64, T.leaf 7)] := by decide +kernel

end Example

end
end UtreexoVerif.Props.C07
