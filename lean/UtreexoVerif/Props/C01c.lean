/-
  C01.3 closed: the whole-block refinement statement of `Props/C01.lean`, from the add refinement
  proved there and the deletion refinement of `Props/C01b.lean`.
-/
import UtreexoVerif.Props.C01
import UtreexoVerif.Props.C01b

namespace UtreexoVerif.Props.C01
open UtreexoVerif

theorem stump_update_refines {H : Type} [DecidableEq H] [Hasher H] :
    stump_update_refines_statement H :=
  C01b.stump_update_refines_of_add stump_add_refines

end UtreexoVerif.Props.C01
