/-
  SHA-512/256 of a 64-byte message (the only use in utreexo: parentHash l r), as an
  executable stand-in for Go's crypto/sha512.  It is NOT reasoned about: theorems are
  parametric in the hash function and assume collision-freeness as a hypothesis.  This
  implementation only makes the compiled driver compare byte for byte with Go, and every
  compared hash validates it against Go's implementation.
-/
namespace UtreexoVerif

/-- 32-byte hash as four big-endian 64-bit words. -/
structure H256 where
  a : UInt64
  b : UInt64
  c : UInt64
  d : UInt64
deriving DecidableEq, BEq, Hashable, Inhabited, Repr

namespace H256
def zero : H256 := ⟨0, 0, 0, 0⟩
instance : Ord H256 where
  compare x y := (compare x.a y.a).then ((compare x.b y.b).then ((compare x.c y.c).then (compare x.d y.d)))
end H256

namespace Sha

def K : Array UInt64 := #[
  0x428a2f98d728ae22, 0x7137449123ef65cd, 0xb5c0fbcfec4d3b2f, 0xe9b5dba58189dbbc,
  0x3956c25bf348b538, 0x59f111f1b605d019, 0x923f82a4af194f9b, 0xab1c5ed5da6d8118,
  0xd807aa98a3030242, 0x12835b0145706fbe, 0x243185be4ee4b28c, 0x550c7dc3d5ffb4e2,
  0x72be5d74f27b896f, 0x80deb1fe3b1696b1, 0x9bdc06a725c71235, 0xc19bf174cf692694,
  0xe49b69c19ef14ad2, 0xefbe4786384f25e3, 0x0fc19dc68b8cd5b5, 0x240ca1cc77ac9c65,
  0x2de92c6f592b0275, 0x4a7484aa6ea6e483, 0x5cb0a9dcbd41fbd4, 0x76f988da831153b5,
  0x983e5152ee66dfab, 0xa831c66d2db43210, 0xb00327c898fb213f, 0xbf597fc7beef0ee4,
  0xc6e00bf33da88fc2, 0xd5a79147930aa725, 0x06ca6351e003826f, 0x142929670a0e6e70,
  0x27b70a8546d22ffc, 0x2e1b21385c26c926, 0x4d2c6dfc5ac42aed, 0x53380d139d95b3df,
  0x650a73548baf63de, 0x766a0abb3c77b2a8, 0x81c2c92e47edaee6, 0x92722c851482353b,
  0xa2bfe8a14cf10364, 0xa81a664bbc423001, 0xc24b8b70d0f89791, 0xc76c51a30654be30,
  0xd192e819d6ef5218, 0xd69906245565a910, 0xf40e35855771202a, 0x106aa07032bbd1b8,
  0x19a4c116b8d2d0c8, 0x1e376c085141ab53, 0x2748774cdf8eeb99, 0x34b0bcb5e19b48a8,
  0x391c0cb3c5c95a63, 0x4ed8aa4ae3418acb, 0x5b9cca4f7763e373, 0x682e6ff3d6b2b8a3,
  0x748f82ee5defb2fc, 0x78a5636f43172f60, 0x84c87814a1f0ab72, 0x8cc702081a6439ec,
  0x90befffa23631e28, 0xa4506cebde82bde9, 0xbef9a3f7b2c67915, 0xc67178f2e372532b,
  0xca273eceea26619c, 0xd186b8c721c0c207, 0xeada7dd6cde0eb1e, 0xf57d4f7fee6ed178,
  0x06f067aa72176fba, 0x0a637dc5a2c898a6, 0x113f9804bef90dae, 0x1b710b35131c471b,
  0x28db77f523047d84, 0x32caab7b40c72493, 0x3c9ebe0a15c9bebc, 0x431d67c49c100d4c,
  0x4cc5d4becb3e42b6, 0x597f299cfc657e2a, 0x5fcb6fab3ad6faec, 0x6c44198c4a475817]

@[inline] def rotr (x : UInt64) (n : UInt64) : UInt64 := (x >>> n) ||| (x <<< (64 - n))

def schedule (w : Array UInt64) : Array UInt64 := Id.run do
  let mut w := w
  for i in [16:80] do
    let v1 := w[i-2]!
    let t1 := rotr v1 19 ^^^ rotr v1 61 ^^^ (v1 >>> 6)
    let v2 := w[i-15]!
    let t2 := rotr v2 1 ^^^ rotr v2 8 ^^^ (v2 >>> 7)
    w := w.push (t1 + w[i-7]! + t2 + w[i-16]!)
  return w

/-- one compression of the single padded block holding the 64-byte message  -/
def compress64 (l r : H256) : H256 := Id.run do
  let w := schedule #[l.a, l.b, l.c, l.d, r.a, r.b, r.c, r.d,
                      0x8000000000000000, 0, 0, 0, 0, 0, 0, 512]
  let h0 : UInt64 := 0x22312194fc2bf72c
  let h1 : UInt64 := 0x9f555fa3c84c64c2
  let h2 : UInt64 := 0x2393b86b6f53b151
  let h3 : UInt64 := 0x963877195940eabd
  let h4 : UInt64 := 0x96283ee2a88effe3
  let h5 : UInt64 := 0xbe5e1e2553863992
  let h6 : UInt64 := 0x2b0199fc2c85b8aa
  let h7 : UInt64 := 0x0eb72ddc81c52ca2
  let mut a := h0; let mut b := h1; let mut c := h2; let mut d := h3
  let mut e := h4; let mut f := h5; let mut g := h6; let mut h := h7
  for i in [0:80] do
    let t1 := h + (rotr e 14 ^^^ rotr e 18 ^^^ rotr e 41) + ((e &&& f) ^^^ (~~~e &&& g)) + K[i]! + w[i]!
    let t2 := (rotr a 28 ^^^ rotr a 34 ^^^ rotr a 39) + ((a &&& b) ^^^ (a &&& c) ^^^ (b &&& c))
    h := g; g := f; f := e; e := d + t1; d := c; c := b; b := a; a := t1 + t2
  return ⟨h0 + a, h1 + b, h2 + c, h3 + d⟩

end Sha

/-- Go's  -/
def sha512_256_pair (l r : H256) : H256 := Sha.compress64 l r

namespace H256
def hexDigit (n : UInt64) : Char :=
  if n < 10 then Char.ofNat (48 + n.toNat) else Char.ofNat (87 + n.toNat)
def wordHex (w : UInt64) : String := Id.run do
  let mut s := ""
  for i in [0:16] do
    s := s.push (hexDigit ((w >>> (UInt64.ofNat (60 - 4*i))) &&& 0xf))
  return s
def toHex (h : H256) : String := wordHex h.a ++ wordHex h.b ++ wordHex h.c ++ wordHex h.d
def hexVal (c : Char) : Option UInt64 :=
  if '0' ≤ c ∧ c ≤ '9' then some (UInt64.ofNat (c.toNat - 48))
  else if 'a' ≤ c ∧ c ≤ 'f' then some (UInt64.ofNat (c.toNat - 87))
  else none
def parseWord (cs : List Char) : Option UInt64 :=
  cs.foldlM (fun acc c => (hexVal c).map (fun v => (acc <<< 4) ||| v)) 0
/-- parse 64 hex digits; the short form z is the all-zero hash -/
def ofHex? (s : String) : Option H256 :=
  if s == "z" then some zero else
  let cs := s.toList
  if cs.length != 64 then none else do
    let a ← parseWord (cs.take 16)
    let b ← parseWord ((cs.drop 16).take 16)
    let c ← parseWord ((cs.drop 32).take 16)
    let d ← parseWord ((cs.drop 48).take 16)
    pure ⟨a, b, c, d⟩
end H256
end UtreexoVerif
