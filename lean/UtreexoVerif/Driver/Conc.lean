/-
  Family `conc` (property C12): lines written by harness/fam_conc.go.

    concw <site> <hit> <writer-op> <config> <reached> <result on A> <result on twin>
    conc  <site> <hit> <writer-op> <config> <query> <args> <early|blocked> <result> <before> <after>
    concstress <cycle> <config> writer=… readers=… queries=… outside=… panics=… hang=… [first=…]

  MODEL (correspondence with the regenerated lock table `Gen/LockTable.lean`): the table
  says in which method each `verifPoint` site lies and, through the closure over the call
  graph, that this method only runs under the WRITE lock; it says which lock each query
  method takes.  The interleaving semantics (`Model/Lock.lean`, theorems in `Props/C12.lean`)
  then predicts: while the writer is suspended at the site every lock-taking query is
  BLOCKED, and once it runs it sees the state AFTER the block.  A deviation is a MISMATCH
  (`conc:sched`, `conc:result`, `conc:site`, `conc:writer`).

  ORACLE (from the property text, independent of the table): a query that depends on the
  state never completes while a block is half applied (`conc:early`); its result is the one
  for the state before or after the block (`conc:view`); nothing panics or hangs
  (`conc:crash`); under stress every result belongs to a block boundary (`conc:stress`).
-/
import UtreexoVerif.Driver.State
import UtreexoVerif.Gen.LockTable

namespace UtreexoVerif.Driver
open UtreexoVerif Model.Lock Gen.LockTable

/-- the contexts every method may run in, computed once from the table -/
def concCtxs : List (Method × Ctxs) := allMethods.map (fun m => (m, inferCtxs table allMethods m))

/-- does the table place this site inside a write section (only)? -/
def siteInWriteSection (site : String) : Option Bool :=
  match hookSites.find? (fun sm => sm.1 == site) with
  | none => none
  | some (_, m) =>
    let i := table m
    let c := lookupC concCtxs m
    -- either the method itself takes the write lock (site after the acquire: the translator
    -- refuses sites before it) or it is only ever reached with the write lock held
    some ((i.lock == .w && c == { o := true }) || (i.lock == .none && c == { w := true }))

/-- diagnostic: the methods that violate a local condition of `LockDiscipline` (empty iff the
check passes), with the contexts they may run in -/
def lockOffenders : List String :=
  let C := lookupC concCtxs
  let mu := mutF table allMethods
  (allMethods.filter (fun m =>
      !(((!(table m).exported) || (C m).has .none) && methodOK table mu C m))).map
    (fun m => methodName m ++ "[" ++ ",".intercalate ((C m).toList.map (fun k => match k with
      | .none => "nolock" | .r => "rlock" | .w => "wlock")) ++ "]")

/-- `conctable`: evaluate the lock-discipline check on the regenerated table (the theorem
`Props.C12Table.lockTable_ok` is the proof; this line names the offending methods in the
evidence when it fails) -/
def handleConcTable (line : String) : M Unit := do
  count "conc:table" line
  if !translationOk then
    mismatch "conc:table" "translate/locktable understands mappollard.go" translationError
  else if !(LockDiscipline table allMethods) then
    mismatch "conc:table" "LockDiscipline table = true (theorem UtreexoVerif.Props.C12Table.lockTable_ok)"
      s!"methods violating the lock discipline (with the lock contexts they can run in): {lockOffenders}"
  else if !(SingleSection table allMethods [Method.«String», Method.«AllSubTreesToString»]) then
    let offenders := (multiSection table allMethods).filter
      (fun x => !([Method.«String», Method.«AllSubTreesToString»].contains x.1))
    mismatch "conc:table" "every exported query/writer is one critical section (theorem UtreexoVerif.Props.C12Table.queries_single_section)"
      ("exported methods composed of several critical sections: " ++
        ", ".intercalate (offenders.map (fun x => s!"{methodName x.1} -> {x.2.map methodName}")))

/-- the queries of the property text: all of them depend on the mutable state -/
def stateQueries : List String :=
  ["GetRoots", "GetStump", "Prove", "Verify", "GetLeafPosition", "GetHash", "GetMissingPositions",
   "GetLeafHashPositions", "GetNumLeaves", "GetTreeRows", "Write"]

def handleConcW (line : String) (toks : List String) : M Unit := do
  match toks with
  | [site, _hit, op, _cfg, reached, wres, wtwin] =>
    count ("concw:" ++ site) line
    -- the site must exist in the table and the harness must have reached it
    match siteInWriteSection site with
    | none => mismatch "conc:site" s!"site {site} present in the lock table" "harness reports a site the table does not know"
    | some inW =>
      if !inW then mismatch "conc:site" s!"site {site} inside a write section" "table places it elsewhere"
    if reached != "1" && wres != "skipped" then mismatch "conc:site" s!"writer {op} reaches site {site}" "site not reached"
    if wres != "ok" || wtwin != "ok" then
      if wres == "panic" || wres == "hang" || wtwin == "panic" || wtwin == "hang" then
        oracleFail "conc:crash" s!"writer {op} (site {site}): on the instance under test {wres}, on the sequential twin {wtwin}"
      else if wres == "skipped" then pure ()
      else mismatch "conc:writer" "ok ok" s!"{wres} {wtwin}"
  | _ => parseError line

def handleConc (line : String) (toks : List String) : M Unit := do
  match toks with
  | [site, _hit, _op, _cfg, query, args, sched, res, before, after] =>
    count ("conc:" ++ query) line (before != after)
    -- model prediction from the table
    match methodOfString? query, siteInWriteSection site with
    | some q, some inW =>
      let expSched := if (table q).lock != .none && inW then "blocked" else "early"
      expectEq "conc:sched" s!"{query} {expSched}" s!"{query} {sched}"
      if sched == "blocked" && res != "panic" && res != "hang" && res != "skipped" then
        expectEq "conc:result" s!"{query}({args}) = {after}" s!"{query}({args}) = {res}"
    | none, _ => mismatch "conc:sched" s!"method {query} in the lock table" "unknown method"
    | _, none => pure ()  -- reported on the concw line
    -- oracle
    if res == "panic" || res == "hang" then
      oracleFail "conc:crash" s!"{query}({args}) while a writer was suspended at {site}: {res}"
    else if before == "hang" || after == "hang" || before == "panic" || after == "panic" then
      oracleFail "conc:crash" s!"{query}({args}) on the sequential twin: before={before} after={after}"
    else if res == "skipped" then pure ()
    else
      if sched == "early" && stateQueries.contains query then
        oracleFail "conc:early" s!"{query}({args}) returned {res} while a writer was suspended inside its critical section at {site} (before={before} after={after})"
      if res != before && res != after then
        oracleFail "conc:view" s!"{query}({args}) = {res} at {site}: neither the state before the block ({before}) nor after it ({after})"
  | _ => parseError line

def kvNat (toks : List String) (key : String) : Option Nat :=
  (toks.find? (fun t => t.startsWith (key ++ "="))).bind (fun t => ((t.drop (key.length + 1)).toString).toNat?)

def handleConcStress (line : String) (toks : List String) : M Unit := do
  match toks with
  | cycle :: _cfg :: rest =>
    match kvNat rest "queries", kvNat rest "outside", kvNat rest "panics", kvNat rest "hang" with
    | some q, some o, some p, some h =>
      -- count once per run; the exact line (counts) is not deterministic under a defect
      count ("concstress:" ++ cycle) line (q > 0)
      modify fun s => { s with counts := s.counts.insert "conc:stressqueries" (s.counts.getD "conc:stressqueries" 0 + q) }
      let writerOk := rest.contains "writer=ok"
      if h != 0 then oracleFail "conc:crash" s!"stress {cycle}: readers or writer did not finish (deadlock watchdog)"
      if p != 0 then oracleFail "conc:crash" s!"stress {cycle}: {p} queries panicked"
      if !writerOk then oracleFail "conc:crash" s!"stress {cycle}: the writer failed ({line})"
      if o != 0 then
        let first := (rest.find? (fun t => t.startsWith "first=")).getD ""
        oracleFail "conc:stress" s!"stress {cycle}: {o} of {q} query results belong to no block boundary; {first}"
    | _, _, _, _ => parseError line
  | _ => parseError line

end UtreexoVerif.Driver
