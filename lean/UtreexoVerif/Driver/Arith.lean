/-
  `fn <Name> <args…> = <result…>` lines: evaluate the model of the named utils.go function
  and compare with what the Go function returned.
-/
import UtreexoVerif.Driver.State

namespace UtreexoVerif.Driver
open UtreexoVerif Model

/-- evaluate `name` on string arguments; `none` = unknown function / unparsable arguments -/
def evalFn (name : String) (a : List String) : Option String := do
  match name, a with
  | "LeftChild", [p, r] => pure (u (LeftChild (← parseU64 p) (← parseU8 r)))
  | "RightChild", [p, r] => pure (u (RightChild (← parseU64 p) (← parseU8 r)))
  | "Parent", [p, r] => pure (u (Parent (← parseU64 p) (← parseU8 r)))
  | "ChildMany", [p, d, r] =>
    let x := ChildMany (← parseU64 p) (← parseU8 d) (← parseU8 r); pure s!"{u x.1} {b01 x.2}"
  | "ParentMany", [p, d, r] =>
    let x := ParentMany (← parseU64 p) (← parseU8 d) (← parseU8 r); pure s!"{u x.1} {b01 x.2}"
  | "DetectRow", [p, r] => pure (u8 (DetectRow (← parseU64 p) (← parseU8 r)))
  | "TreeRows", [n] => pure (u8 (TreeRows (← parseU64 n)))
  | "rootPosition", [n, h, r] => pure (u (rootPosition (← parseU64 n) (← parseU8 h) (← parseU8 r)))
  | "isRootPosition", [p, n] => pure (b01 (isRootPosition (← parseU64 p) (← parseU64 n)))
  | "isRootPositionOnRow", [p, n, r] => pure (b01 (isRootPositionOnRow (← parseU64 p) (← parseU64 n) (← parseU8 r)))
  | "isRootPositionTotalRows", [p, n, r] => pure (b01 (isRootPositionTotalRows (← parseU64 p) (← parseU64 n) (← parseU8 r)))
  | "isRootPositionOnRowTotalRows", [p, n, row, r] =>
    pure (b01 (isRootPositionOnRowTotalRows (← parseU64 p) (← parseU64 n) (← parseU8 row) (← parseU8 r)))
  | "maxPositionAtRow", [row, r, n] =>
    let x := maxPositionAtRow (← parseU8 row) (← parseU8 r) (← parseU64 n); pure s!"{u x.1} {b01 x.2}"
  | "maxPossiblePosAtRow", [row, r] => pure (u (maxPossiblePosAtRow (← parseU8 row) (← parseU8 r)))
  | "startPositionAtRow", [row, r] => pure (u (startPositionAtRow (← parseU8 row) (← parseU8 r)))
  | "translatePos", [p, f, t] => pure (u (translatePos (← parseU64 p) (← parseU8 f) (← parseU8 t)))
  | "calcNextPosition", [p, d, r] =>
    let x := calcNextPosition (← parseU64 p) (← parseU64 d) (← parseU8 r); pure s!"{u x.1} {b01 x.2}"
  | "calcPrevPosition", [p, d, r] => pure (u (calcPrevPosition (← parseU64 p) (← parseU64 d) (← parseU8 r)))
  | "isAncestor", [hi, lo, r] => pure (b01 (isAncestor (← parseU64 hi) (← parseU64 lo) (← parseU8 r)))
  | "inForest", [p, n, r] => pure (b01 (inForest (← parseU64 p) (← parseU64 n) (← parseU8 r)))
  | "getLowestRoot", [n, r] => pure (u8 (getLowestRoot (← parseU64 n) (← parseU8 r)))
  | "rootIdxOnRow", [n, r] => pure (toString (rootIdxOnRow (← parseU64 n) (← parseU8 r)))
  | "removeBit", [v, b] => pure (u (removeBit (← parseU64 v) (← parseU64 b)))
  | "addBit", [v, p, b] => pure (u (addBit (← parseU64 v) (← parseU64 p) (b == "1")))
  | "DetectOffset", [p, n] =>
    let x := DetectOffset (← parseU64 p) (← parseU64 n)
    pure s!"{u8 x.1} {u8 x.2.1} {u x.2.2.1} {b01 x.2.2.2}"
  | "subtreeRow", [n, t] => pure (u8 (subtreeRow (← parseU64 n) (← parseU8 t)))
  | "RootPositions", [n, r] => pure (u64s (RootPositions (← parseU64 n) (← parseU8 r)))
  | "deTwin", [l, r] => pure (u64s (deTwin (← parseU64s l) (← parseU8 r)))
  | "ProofPositions", [l, n, r] =>
    let x := ProofPositions (← parseU64s l) (← parseU64 n) (← parseU8 r); pure s!"{u64s x.1} {u64s x.2}"
  | "proofPosition", [t, n, r] => pure (u64s (proofPosition (← parseU64 t) (← parseU64 n) (← parseU8 r)))
  | _, _ => none

/-- (row, offset) of an encoded position in a forest allocated for `rows` rows (geometry only) -/
def decPos (rows : Nat) (p : Nat) : Option Spec.Pos :=
  (List.range (rows + 1)).findSome? fun r =>
    let start := Spec.enc rows (r, 0)
    if start ≤ p && p < start + 2 ^ (rows - r) then some (r, p - start) else none

/-- C16 oracle for `ProofPositions` (from the property text, geometry only): for sorted,
duplicate-free targets that are positions of a forest with `n` leaves, the first result is
exactly the siblings on the targets' paths that are neither targets nor computable, the
second exactly the computable ancestors.  Returns `none` when the oracle does not apply.
The third component says whether some target is a strict ancestor of another: deviations in
that class were the recorded finding `C16.proofpositions.nested`; with the repaired
`ProofPositions` (per-row `slices.Compact`, `Props.C16.proofPositions_spec_all`) there are
none, and the classification is kept so that a regression to the old behaviour shows up as a
KNOWN event of a class that is no longer listed as open (= a violation). -/
def proofPositionsSpec (ts : List Nat) (n rows : Nat) : Option (List Nat × List Nat × Bool) := do
  let ps ← ts.mapM (decPos rows)
  if !(ps.all fun (r, o) => (o + 1) * 2 ^ r ≤ n) then none
  if !(ts.zip (ts.drop 1)).all (fun (a, b) => a < b) then none
  let F : Spec.Forest Unit := ⟨List.replicate n none⟩
  let _ := F
  let paths := ps.flatMap (Spec.Forest.pathUp n (rows + 1))
  let P := Spec.Forest.sortDedup paths
  let proof := Spec.Forest.sortDedup ((P.filter (fun p => !Spec.isRootPos n p)).map Spec.sib |>.filter (fun s => !P.contains s))
  let comp := Spec.Forest.sortDedup (ps.flatMap (fun t => (Spec.Forest.pathUp n (rows + 1) t).drop 1))
  -- nested: some target is a strict ancestor of another target
  let nested := ps.any fun t => ps.any fun t' => t != t' && ((Spec.Forest.pathUp n (rows + 1) t').drop 1).contains t
  pure (proof.map (Spec.enc rows), comp.map (Spec.enc rows), nested)

def handleFn (line : String) (toks : List String) : M Unit := do
  match toks with
  | name :: rest =>
    let args := rest.takeWhile (· != "=")
    let res := " ".intercalate ((rest.dropWhile (· != "=")).drop 1)
    match evalFn name args with
    | some exp =>
      count ("fn:" ++ name) line
      expectEq ("fn:" ++ name) exp res
      -- property oracle for ProofPositions
      if name == "ProofPositions" then
        match args, (rest.dropWhile (· != "=")).drop 1 with
        | [l, n, r], [gp, gc] =>
          match parseNats l, n.toNat?, r.toNat?, parseNats gp, parseNats gc with
          | some ts, some n, some rows, some gp, some gc =>
            if rows ≤ 63 && n ≤ 2 ^ rows then
              match proofPositionsSpec ts n rows with
              | some (ep, ec, nested) =>
                count "oracle:ProofPositions" line (!ts.isEmpty)
                -- nested target sets (a target is an ancestor of another): canonical since the
                -- repair of C16.proofpositions.nested; counted to show they are exercised
                if nested then count "oracle:ProofPositions:nested" line
                let gpS := gp.mergeSort (· ≤ ·)
                let gcS := gc.mergeSort (· ≤ ·)
                if gpS != ep.mergeSort (· ≤ ·) || gcS != ec.mergeSort (· ≤ ·) then
                  if nested then
                    knownFinding "C16.proofpositions.nested" s!"ProofPositions({l}, {n}, {rows}) = {nats gp} / {nats gc}, canonical {nats ep} / {nats ec}"
                  else
                    oracleFail "fn:ProofPositions" s!"ProofPositions({l}, {n}, {rows}) = {nats gp} / {nats gc}, canonical {nats ep} / {nats ec}"
              | none => pure ()
          | _, _, _, _, _ => pure ()
        | _, _ => pure ()
    | none => parseError line
  | [] => parseError line

end UtreexoVerif.Driver
