/-
  `fn <Name> <args…> = <result…>` lines: evaluate the model of the named utils.go function
  and compare with what the Go function returned.
-/
import UtreexoVerif.Driver.State

namespace UtreexoVerif.Driver
open UtreexoVerif Model

/-- evaluate `name` on string arguments; `none` = unknown function / unparsable arguments -/
def evalFn (name : String) (a : List String) : Option String := do
  match name, a with
  | "LeftChild", [p, r] => pure (u (LeftChild (← parseU64 p) (← parseU8 r)))
  | "RightChild", [p, r] => pure (u (RightChild (← parseU64 p) (← parseU8 r)))
  | "Parent", [p, r] => pure (u (Parent (← parseU64 p) (← parseU8 r)))
  | "ChildMany", [p, d, r] =>
    let x := ChildMany (← parseU64 p) (← parseU8 d) (← parseU8 r); pure s!"{u x.1} {b01 x.2}"
  | "ParentMany", [p, d, r] =>
    let x := ParentMany (← parseU64 p) (← parseU8 d) (← parseU8 r); pure s!"{u x.1} {b01 x.2}"
  | "DetectRow", [p, r] => pure (u8 (DetectRow (← parseU64 p) (← parseU8 r)))
  | "TreeRows", [n] => pure (u8 (TreeRows (← parseU64 n)))
  | "rootPosition", [n, h, r] => pure (u (rootPosition (← parseU64 n) (← parseU8 h) (← parseU8 r)))
  | "isRootPosition", [p, n] => pure (b01 (isRootPosition (← parseU64 p) (← parseU64 n)))
  | "isRootPositionOnRow", [p, n, r] => pure (b01 (isRootPositionOnRow (← parseU64 p) (← parseU64 n) (← parseU8 r)))
  | "isRootPositionTotalRows", [p, n, r] => pure (b01 (isRootPositionTotalRows (← parseU64 p) (← parseU64 n) (← parseU8 r)))
  | "isRootPositionOnRowTotalRows", [p, n, row, r] =>
    pure (b01 (isRootPositionOnRowTotalRows (← parseU64 p) (← parseU64 n) (← parseU8 row) (← parseU8 r)))
  | "maxPositionAtRow", [row, r, n] =>
    let x := maxPositionAtRow (← parseU8 row) (← parseU8 r) (← parseU64 n); pure s!"{u x.1} {b01 x.2}"
  | "maxPossiblePosAtRow", [row, r] => pure (u (maxPossiblePosAtRow (← parseU8 row) (← parseU8 r)))
  | "startPositionAtRow", [row, r] => pure (u (startPositionAtRow (← parseU8 row) (← parseU8 r)))
  | "translatePos", [p, f, t] => pure (u (translatePos (← parseU64 p) (← parseU8 f) (← parseU8 t)))
  | "calcNextPosition", [p, d, r] =>
    let x := calcNextPosition (← parseU64 p) (← parseU64 d) (← parseU8 r); pure s!"{u x.1} {b01 x.2}"
  | "calcPrevPosition", [p, d, r] => pure (u (calcPrevPosition (← parseU64 p) (← parseU64 d) (← parseU8 r)))
  | "isAncestor", [hi, lo, r] => pure (b01 (isAncestor (← parseU64 hi) (← parseU64 lo) (← parseU8 r)))
  | "inForest", [p, n, r] => pure (b01 (inForest (← parseU64 p) (← parseU64 n) (← parseU8 r)))
  | "getLowestRoot", [n, r] => pure (u8 (getLowestRoot (← parseU64 n) (← parseU8 r)))
  | "rootIdxOnRow", [n, r] => pure (toString (rootIdxOnRow (← parseU64 n) (← parseU8 r)))
  | "removeBit", [v, b] => pure (u (removeBit (← parseU64 v) (← parseU64 b)))
  | "addBit", [v, p, b] => pure (u (addBit (← parseU64 v) (← parseU64 p) (b == "1")))
  | "DetectOffset", [p, n] =>
    let x := DetectOffset (← parseU64 p) (← parseU64 n)
    pure s!"{u8 x.1} {u8 x.2.1} {u x.2.2.1} {b01 x.2.2.2}"
  | "subtreeRow", [n, t] => pure (u8 (subtreeRow (← parseU64 n) (← parseU8 t)))
  | "RootPositions", [n, r] => pure (u64s (RootPositions (← parseU64 n) (← parseU8 r)))
  | "deTwin", [l, r] => pure (u64s (deTwin (← parseU64s l) (← parseU8 r)))
  | "ProofPositions", [l, n, r] =>
    let x := ProofPositions (← parseU64s l) (← parseU64 n) (← parseU8 r); pure s!"{u64s x.1} {u64s x.2}"
  | "proofPosition", [t, n, r] => pure (u64s (proofPosition (← parseU64 t) (← parseU64 n) (← parseU8 r)))
  | _, _ => none

def handleFn (line : String) (toks : List String) : M Unit := do
  match toks with
  | name :: rest =>
    let args := rest.takeWhile (· != "=")
    let res := " ".intercalate ((rest.dropWhile (· != "=")).drop 1)
    match evalFn name args with
    | some exp =>
      count ("fn:" ++ name) line
      expectEq ("fn:" ++ name) exp res
    | none => parseError line
  | [] => parseError line

end UtreexoVerif.Driver
