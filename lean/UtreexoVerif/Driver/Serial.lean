/-
  `ser …` lines (families `serial`, `serialexh`; property C13).

  The harness writes every forest, emits the bytes, and restores them through readers that
  split the stream differently, from truncation points, and writes into failing sinks.  Here
  * the Go bytes are compared with the wire format DEFINED ON THE SPECIFICATION FOREST
    (`Model.Serial.encodePollard`) resp. with the model encoding of the state the Go maps hold
    (`encodeMap`, in the order Go walked the maps, recovered by decoding);
  * every Go outcome (`ok n` / `err n` / panic) is compared with the outcome of the model of
    `RestorePollardFrom` / `MapPollard.Read` / `WriteTo` / `MapPollard.Write` on the same
    reader chunking / truncation point / sink (`MISMATCH`);
  * the property oracle is evaluated on what Go did (`ORACLE`): full stream ⇒ `ok`, count =
    length, restored instance identical; strict prefix ⇒ `err` or an identical instance;
    failing sink ⇒ `err` with count ≤ accepted bytes; never a panic; `SerializeSize` = length.
-/
import UtreexoVerif.Driver.Forest
import UtreexoVerif.Model.Serial

namespace UtreexoVerif.Driver
open UtreexoVerif Model Spec Model.Serial

-- ---------- bytes

def wordBytes (w : UInt64) : List Byte :=
  (List.range 8).map fun i => BitVec.ofNat 8 ((w >>> (UInt64.ofNat (56 - 8 * i))).toNat % 256)

def bytesWord (bs : List Byte) : UInt64 :=
  bs.foldl (fun acc b => (acc <<< 8) ||| UInt64.ofNat b.toNat) 0

instance : HashBytes H256 where
  toBytes h := wordBytes h.a ++ wordBytes h.b ++ wordBytes h.c ++ wordBytes h.d
  ofBytes bs := ⟨bytesWord (bs.take 8), bytesWord ((bs.drop 8).take 8), bytesWord ((bs.drop 16).take 8),
                 bytesWord ((bs.drop 24).take 8)⟩

def hexNib (c : Char) : Option Nat :=
  if '0' ≤ c ∧ c ≤ '9' then some (c.toNat - 48)
  else if 'a' ≤ c ∧ c ≤ 'f' then some (c.toNat - 87) else none

def parseHexBytes (s : String) : Option (List Byte) :=
  let rec go : List Char → List Byte → Option (List Byte)
    | [], acc => some acc.reverse
    | [_], _ => none
    | a :: b :: rest, acc => do
      let x ← hexNib a
      let y ← hexNib b
      go rest (BitVec.ofNat 8 (16 * x + y) :: acc)
  if s == "-" then some [] else go s.toList []

def nibHex (n : Nat) : Char := if n < 10 then Char.ofNat (48 + n) else Char.ofNat (87 + n)

def bytesHex (bs : List Byte) : String :=
  String.ofList (bs.flatMap fun b => [nibHex (b.toNat / 16), nibHex (b.toNat % 16)])

-- ---------- readers named by the harness

def splitBySizes : List Byte → List Nat → List (List Byte)
  | bs, [] => [bs]
  | bs, k :: ks => bs.take k :: splitBySizes (bs.drop k) ks

/-- the model reader for a harness reader description.  `half` (each `Read` returns half of
what was asked for) is not a fixed chunking; by the chunking-independence theorem
(`Props/C13`) any chunking gives the model's answer, halves of 17 bytes are used. -/
def mkReader (desc : String) (bs : List Byte) : Option Reader :=
  match desc.splitOn ":" with
  | ["whole"] => some (Reader.whole bs)
  | ["one"] => some ⟨bs.map ([·]), false⟩
  | ["half"] => some ⟨splitBySizes bs (List.replicate (bs.length / 17 + 1) 17), false⟩
  | ["dataerr"] => some ⟨splitBySizes bs (List.replicate (bs.length / 1024) 1024), true⟩
  | ["dataerr1"] => some ⟨bs.map ([·]), true⟩
  | ["c", e, sizes] => (parseNats sizes).map fun ks => ⟨splitBySizes bs ks, e == "1"⟩
  | _ => none

def resStr {α : Type} (r : Res α) : String := s!"{r.out.tag} {r.n}"

-- ---------- stored streams

def putExtra (k v : String) : M Unit := modify fun s => { s with extra := s.extra.insert k v }
def getBytes (label : String) : M (Option (List Byte)) := do
  let s ← get
  pure ((s.extra.get? ("ser:" ++ label)).bind parseHexBytes)

/-- `t:outcome:n:verdict` items -/
def parseItems (s : String) : Option (List (Nat × String × Nat × String)) :=
  if s == "-" then some [] else
  (s.splitOn ",").mapM fun it =>
    match it.splitOn ":" with
    | t :: o :: n :: rest => do
      let t ← t.toNat?
      let n ← n.toNat?
      pure (t, o, n, ":".intercalate rest)
    | _ => none

-- ---------- big streams: the model replay is sampled

/-- The models of `RestorePollardFrom` / `MapPollard.Read` / `WriteTo` / `Write` work on lists of
bytes and association lists (that is what the theorems are about); one replay of a stream of
70 kB takes seconds.  For streams beyond `bigStream` bytes (the many-tree histories: hundreds to
thousands of records) the MODEL comparison is therefore made for a sample of the truncation
points / sink offsets / readers / damaged variants only (counted as `dist:ser:modelsampledout` when
skipped); the property ORACLE is evaluated on every item Go reported, as for small streams, and
the comparison of the written bytes with the wire format of the specification is always made. -/
def bigStream : Nat := 24000

/-- does item `i` of `n` get the model replay, for a stream of `len` bytes -/
def modelSampled (len n i : Nat) : Bool :=
  len ≤ bigStream || i == 0 || i + 1 == n || i == n / 2

/-- the same for lines that come one by one (readers, damaged variants): by a hash of the tag -/
def modelSampledTag (len : Nat) (tag : String) (every : Nat) : Bool :=
  len ≤ bigStream || (hash tag).toNat % every == 0

def countSkipped (line : String) : M Unit := count "dist:ser:modelsampledout" line false

-- ---------- the pointer forest

def handlePWrite (line : String) (toks : List String) : M Unit := do
  let s ← get
  let F := s.forest
  match toks with
  | [label, n, e, size, hex] =>
    match n.toNat?, size.toNat?, parseHexBytes hex with
    | some n, some size, some bs =>
      count "ser:pwrite" (line.take 200).toString (F.numLeaves > 0)
      let exp := encodePollard F
      if exp != bs then mismatch "ser:pwrite" (bytesHex exp) hex
      if e != "0" then oracleFail "ser:write" s!"{label}: WriteTo into a buffer returned an error"
      if n != bs.length then oracleFail "ser:count" s!"{label}: WriteTo returned {n} for {bs.length} bytes"
      if size != bs.length then oracleFail "ser:size" s!"{label}: SerializeSize {size} but {bs.length} bytes written"
      -- the model of WriteTo / SerializeSize on the pointer forest of the specification
      let P := PState.ofForest F
      let (r, w) := writeTo P ⟨[], bs.length + 1000⟩
      if resStr r != s!"ok {bs.length}" || w.written != bs then
        mismatch "ser:pwritemodel" s!"ok {bs.length}" (resStr r)
      if serializeSize P != size then mismatch "ser:sizemodel" (toString (serializeSize P)) (toString size)
      putExtra ("ser:" ++ label) hex
    | _, _, _ => parseError line
  | [label, res] => count "ser:pwrite" line; oracleFail "ser:write" s!"{label}: WriteTo {res}"
  | _ => parseError line

def handlePRestore (line : String) (toks : List String) : M Unit := do
  let s ← get
  match toks with
  | [label, rd, outcome, n, verdict] =>
    match ← getBytes label with
    | some bs =>
      match mkReader rd bs with
      | some r =>
        count "ser:prestore" ((line.take 300).toString ++ toString (hash bs)) true
        if rd == "whole" || modelSampledTag bs.length rd 4 then
          let m : Res (PState H256) := restorePollard r
          expectEq "ser:prestore" (resStr m) s!"{outcome} {n}"
          match m.out with
          | .ok P => if P != PState.ofForest s.forest then
              mismatch "ser:pmodelstate" "the pointer forest of the specification" "another state decoded by the model"
          | _ => pure ()
        else countSkipped line
        if outcome != "ok" || n != toString bs.length || verdict != "same" then
          oracleFail "ser:roundtrip" s!"{label} reader {trunc rd 60}: {outcome} {n} {verdict} (stream of {bs.length} bytes)"
      | none => parseError line
    | none => parseError line
  | _ => parseError line

def handlePTrunc (line : String) (toks : List String) : M Unit := do
  let s ← get
  match toks with
  | [label, rk, items] =>
    match ← getBytes label, parseItems items with
    | some bs, some its =>
      let key := toString (hash bs)
      let P0 := PState.ofForest s.forest
      let mut i := 0
      for (t, outcome, n, verdict) in its do
        match mkReader rk (bs.take t) with
        | some r =>
          count "ser:ptrunc" s!"ptrunc {rk} {key} {t}" (outcome == "ok")
          if modelSampled bs.length its.length i then
            let m : Res (PState H256) := restorePollard r
            expectEq "ser:ptrunc" s!"{t}: {resStr m}" s!"{t}: {outcome} {n}"
            match m.out with
            | .ok P => if P != P0 then
                mismatch "ser:ptruncstate" s!"{t}: err or the original state" s!"{t}: the model accepts the prefix with another state"
            | _ => pure ()
          else countSkipped s!"ptrunc {rk} {key} {t}"
          i := i + 1
          if outcome == "panic" || outcome == "hang" then
            oracleFail "ser:prefix" s!"{label}: restoring from the first {t} of {bs.length} bytes: {outcome}"
          else if outcome == "ok" && (verdict != "same" || n != t) then
            oracleFail "ser:prefix" s!"{label}: strict prefix of {t}/{bs.length} bytes accepted: n={n} {verdict}"
          else if outcome == "err" && n > t then
            oracleFail "ser:count" s!"{label}: prefix of {t} bytes rejected with count {n}"
        | none => parseError line
    | _, _ => parseError line
  | _ => parseError line

def handlePSink (line : String) (toks : List String) : M Unit := do
  let s ← get
  match toks with
  | [label, items] =>
    match ← getBytes label, parseItems items with
    | some bs, some its =>
      let key := toString (hash bs)
      let P0 := PState.ofForest s.forest
      let mut i := 0
      for (k, outcome, n, pfx) in its do
        count "ser:psink" s!"psink {key} {k}" true
        if modelSampled bs.length its.length i then
          let (m, w) := writeTo P0 ⟨[], k⟩
          expectEq "ser:psink" s!"{k}: {resStr m} {if w.written == bs.take k then "p" else "x"}" s!"{k}: {outcome} {n} {pfx}"
        else countSkipped s!"psink {key} {k}"
        i := i + 1
        if outcome != "err" then
          oracleFail "ser:sink" s!"{label}: writer failing after {k} of {bs.length} bytes: WriteTo {outcome}"
        else if n > k then
          oracleFail "ser:count" s!"{label}: writer failing after {k} bytes: WriteTo reported {n}"
    | _, _ => parseError line
  | _ => parseError line

-- ---------- the map forest

def parseCached (s : String) : Option (List (H256 × U64)) :=
  if s == "-" then some [] else
  (s.splitOn ",").mapM fun it =>
    match it.splitOn "@" with
    | [h, p] => do pure (← H256.ofHex? h, ← parseU64 p)
    | _ => none

def cachedStr (c : List (H256 × U64)) : String :=
  let c := c.mergeSort (fun a b => compare a.1 b.1 != .gt)
  if c.isEmpty then "-" else ",".intercalate (c.map fun (h, p) => s!"{hx h}@{p.toNat}")

def nodesStr (ns : List (U64 × H256 × Bool)) : String :=
  let ns := ns.mergeSort (fun a b => a.1.toNat ≤ b.1.toNat)
  if ns.isEmpty then "-" else ",".intercalate (ns.map fun (p, h, r) => s!"{p.toNat}@{hx h}@{b01 r}")

def mapStateStr (m : MapSt H256) : String :=
  s!"{m.totalRows.toNat} {m.numLeaves.toNat} {cachedStr m.cached} {nodesStr m.nodes}"

/-- (row, offset) of a position written in `total`-row coordinates -/
def roOf (p : U64) (total : U8) : Nat × Nat :=
  let row := DetectRow p total
  (row.toNat, (p - startPositionAtRow row total).toNat)

def handleMWrite (line : String) (toks : List String) : M Unit := do
  let I ← getIndex
  match toks with
  | [label, full, n, e, tr, nl, c, nd, hex] =>
    match n.toNat?, parseHexBytes hex with
    | some n, some bs =>
      count "ser:mwrite" (line.take 200).toString (I.n > 0)
      if e != "0" then oracleFail "ser:write" s!"{label}: Write into a buffer returned an error"
      if n != bs.length then oracleFail "ser:count" s!"{label}: Write returned {n} for {bs.length} bytes"
      -- the state the bytes carry, by the model of Read into a fresh receiver
      let m : Res (MapSt H256) := mapRead MapSt.fresh (Reader.whole bs)
      match m.out with
      | .ok st =>
        if m.n != bs.length then mismatch "ser:mwrite" s!"model Read consumes {bs.length}" (toString m.n)
        -- = the state Go holds (maps dumped directly), compared as sorted record sets
        expectEq "ser:mwrite" s!"{tr} {nl} {c} {nd}" (mapStateStr st)
        -- and the model encoding of that state, in the order Go walked its maps, is the stream
        if encodeMap st != bs then mismatch "ser:mwrite" (trunc (bytesHex (encodeMap st)) 200) (trunc hex 200)
        let (r, w) := mapWrite st ⟨[], bs.length + 1000⟩
        if resStr r != s!"ok {bs.length}" || w.written != bs then
          mismatch "ser:mwritemodel" s!"ok {bs.length}" (resStr r)
        -- every record is true of the specification forest; a full forest holds everything
        if st.numLeaves.toNat != I.n then oracleFail "ser:mspec" s!"{label}: NumLeaves {st.numLeaves.toNat}, specification {I.n}"
        for (p, h, _) in st.nodes do
          if I.byRO.get? (roOf p st.totalRows) != some h then
            oracleFail "ser:mspec" s!"{label}: stored node {p.toNat} ↦ {hx h} is not a node of the specification forest"
        for (h, p) in st.cached do
          if I.posOf h != some (roOf p st.totalRows) then
            oracleFail "ser:mspec" s!"{label}: cached leaf {hx h} ↦ {p.toNat} is not that leaf's position"
        if full == "1" && (st.nodes.length != I.byRO.size || st.cached.length != I.byLeaf.size) then
          oracleFail "ser:mspec" s!"{label}: full forest holds {st.nodes.length} nodes / {st.cached.length} leaves, specification {I.byRO.size} / {I.byLeaf.size}"
      | _ => mismatch "ser:mwrite" "a stream the model of Read accepts" (resStr m)
      putExtra ("ser:" ++ label) hex
    | _, _ => parseError line
  | [label, res] => count "ser:mwrite" line; oracleFail "ser:write" s!"{label}: Write {res}"
  | _ => parseError line

/-- the state carried by the stored stream of `label` -/
initialize storedMapCache : IO.Ref (Std.HashMap String (UInt64 × List Byte × MapSt H256)) ← IO.mkRef {}

def storedMap (label : String) : M (Option (List Byte × MapSt H256)) := do
  let s ← get
  match s.extra.get? ("ser:" ++ label) with
  | none => pure none
  | some hexs =>
    -- decoded once per stored stream (every mrestore / mtrunc / msink / mdirty line needs it)
    let c ← (storedMapCache.get : IO _)
    match c.get? label with
    | some (h, bs, st) => if h == hash hexs then return some (bs, st)
    | none => pure ()
    match parseHexBytes hexs with
    | some bs =>
      match (mapRead (MapSt.fresh (H := H256)) (Reader.whole bs)).out with
      | .ok st =>
        (storedMapCache.modify fun c => c.insert label (hash hexs, bs, st) : IO Unit)
        pure (some (bs, st))
      | _ => pure none
    | none => pure none

def handleMRestore (line : String) (toks : List String) : M Unit := do
  match toks with
  | [label, rd, outcome, n, verdict] =>
    match ← storedMap label with
    | some (bs, st) =>
      match mkReader rd bs with
      | some r =>
        count "ser:mrestore" ((line.take 300).toString ++ toString (hash bs)) true
        if rd == "whole" || modelSampledTag bs.length rd 4 then
          let m : Res (MapSt H256) := mapRead MapSt.fresh r
          expectEq "ser:mrestore" (resStr m) s!"{outcome} {n}"
          match m.out with
          | .ok st' => if st' != st then
              mismatch "ser:mmodelstate" "the state decoded from the unsplit stream" "another state decoded by the model"
          | _ => pure ()
        else countSkipped line
        if outcome != "ok" || n != toString bs.length || verdict != "same" then
          oracleFail "ser:roundtrip" s!"{label} reader {trunc rd 60}: {outcome} {n} {verdict} (stream of {bs.length} bytes)"
      | none => parseError line
    | none => parseError line
  | _ => parseError line

def handleMTrunc (line : String) (toks : List String) : M Unit := do
  match toks with
  | [label, rk, items] =>
    match ← storedMap label, parseItems items with
    | some (bs, st), some its =>
      let key := toString (hash bs)
      let mut i := 0
      for (t, outcome, n, verdict) in its do
        match mkReader rk (bs.take t) with
        | some r =>
          count "ser:mtrunc" s!"mtrunc {rk} {key} {t}" (outcome == "ok")
          if modelSampled bs.length its.length i then
            let m : Res (MapSt H256) := mapRead MapSt.fresh r
            expectEq "ser:mtrunc" s!"{t}: {resStr m}" s!"{t}: {outcome} {n}"
            match m.out with
            | .ok st' => if st' != st then
                mismatch "ser:mtruncstate" s!"{t}: err or the original state" s!"{t}: the model accepts the prefix with another state"
            | _ => pure ()
          else countSkipped s!"mtrunc {rk} {key} {t}"
          i := i + 1
          if outcome == "panic" || outcome == "hang" then
            oracleFail "ser:prefix" s!"{label}: reading the first {t} of {bs.length} bytes: {outcome}"
          else if outcome == "ok" && (verdict != "same" || n != t) then
            oracleFail "ser:prefix" s!"{label}: strict prefix of {t}/{bs.length} bytes accepted: n={n} {verdict}"
          else if outcome == "err" && n > t then
            oracleFail "ser:count" s!"{label}: prefix of {t} bytes rejected with count {n}"
        | none => parseError line
    | _, _ => parseError line
  | _ => parseError line

def handleMSink (line : String) (toks : List String) : M Unit := do
  match toks with
  | [label, items] =>
    match ← storedMap label, parseItems items with
    | some (bs, st), some its =>
      let key := toString (hash bs)
      let mut i := 0
      for (k, outcome, n, pfx) in its do
        count "ser:msink" s!"msink {key} {k}" true
        -- Go walks its maps in a fresh random order; the count does not depend on the order
        -- (all records have the same shape), the bytes beyond the header do
        if modelSampled bs.length its.length i then
          let (m, w) := mapWrite st ⟨[], k⟩
          expectEq "ser:msink" s!"{k}: {resStr m} {if w.written.length == k then "p" else "x"}" s!"{k}: {outcome} {n} {pfx}"
        else countSkipped s!"msink {key} {k}"
        i := i + 1
        if outcome != "err" then
          oracleFail "ser:sink" s!"{label}: writer failing after {k} of {bs.length} bytes: Write {outcome}"
        else if n > k then
          oracleFail "ser:count" s!"{label}: writer failing after {k} bytes: Write reported {n}"
    | _, _ => parseError line
  | _ => parseError line

/-- `ser mdirty <label> <outcome> <n> <verdict> <state of the receiver afterwards> <stale stream>`:
the current stream of `label` read into a receiver that already held the state of the stale
stream (an earlier state of the same forest).  OUTSIDE property C13 (which restores into a
freshly constructed forest): informational kind `usedreceiver`, Go is only compared with the
model of `Read`, which does not clear the receiver's maps (overwrite-union); no oracle. -/
def handleMDirty (line : String) (toks : List String) : M Unit := do
  match toks with
  | [label, outcome, n, _verdict, tr, nl, c, nd, staleHex] =>
    match ← storedMap label, parseHexBytes staleHex with
    | some (bs, st), some stale =>
      match (mapRead (MapSt.fresh (H := H256)) (Reader.whole stale)).out with
      | .ok st0 =>
        let m : Res (MapSt H256) := mapRead st0 (Reader.whole bs)
        let clean := match m.out with
          | .ok st1 => mapStateStr st1 == mapStateStr st
          | _ => false
        count "usedreceiver" ((line.take 120).toString ++ toString (hash bs) ++ toString (hash stale)) (!clean)
        expectEq "usedreceiver" (resStr m) s!"{outcome} {n}"
        match m.out with
        | .ok st1 => expectEq "usedreceiver" (mapStateStr st1) s!"{tr} {nl} {c} {nd}"
        | _ => pure ()
      | _ => parseError line
    | _, _ => parseError line
  | _ => parseError line

/-- `ser evolve <label> <verdict>`: an instance restored some blocks ago, driven alongside
the original since, compared with it (full state and observations) -/
def handleEvolve (line : String) (toks : List String) : M Unit := do
  let s ← get
  match toks with
  | [label, verdict] =>
    count "ser:evolve" s!"{line} {s.forest.numLeaves} {s.blocks.length}" (s.forest.numLeaves > 0)
    if verdict != "same" then
      oracleFail "ser:evolve" s!"{label}: the restored instance no longer equals the original after further blocks/undo: {verdict}"
  | _ => parseError line

/-- `off=val+off=val…` -/
def parseEdits (s : String) : Option (List (Nat × Nat)) :=
  (s.splitOn "+").mapM fun it =>
    match it.splitOn "=" with
    | [o, v] => do pure (← o.toNat?, ← v.toNat?)
    | _ => none

def applyEdits (bs : List Byte) (es : List (Nat × Nat)) : List Byte :=
  es.foldl (fun b (o, v) => if o < b.length then b.set o (BitVec.ofNat 8 v) else b) bs

/-- `ser pcorrupt <label> <edits> <outcome> <n> <re-serialisation|->`: a DAMAGED stream (flipped
flags / counters / bytes).  Outside the property's quantifier; Go is compared with the model
(outcome, count, and what was restored, through its re-serialisation), and must not panic. -/
def handlePCorrupt (line : String) (toks : List String) : M Unit := do
  match toks with
  | [label, edits, outcome, n, rew] =>
    match ← getBytes label, parseEdits edits with
    | some bs, some es =>
      count "ser:pcorrupt" s!"pcorrupt {hash bs} {edits}" (outcome == "ok")
      if modelSampledTag bs.length edits 6 then
        let m : Res (PState H256) := restorePollard (Reader.whole (applyEdits bs es))
        expectEq "ser:pcorrupt" (resStr m) s!"{outcome} {n}"
        match m.out with
        | .ok P =>
          -- the pointer forest the model restored, written by the model of WriteTo
          let ws := (writeRoots P.roots 16 ⟨le64 P.numLeaves ++ le64 P.numDels, 100000000⟩).2.written
          if outcome == "ok" then expectEq "ser:pcorrupt" (bytesHex ws) rew
        | _ => pure ()
      else countSkipped s!"pcorrupt {hash bs} {edits}"
      if outcome == "panic" || outcome == "hang" then
        oracleFail "ser:damaged" s!"{label}: restoring a damaged stream ({edits}): {outcome}"
    | _, _ => parseError line
  | _ => parseError line

def handleMCorrupt (line : String) (toks : List String) : M Unit := do
  match toks with
  | [label, edits, outcome, n, tr, nl, c, nd] =>
    match ← getBytes label, parseEdits edits with
    | some bs, some es =>
      count "ser:mcorrupt" s!"mcorrupt {hash bs} {edits}" (outcome == "ok")
      if modelSampledTag bs.length edits 12 then
        let m : Res (MapSt H256) := mapRead MapSt.fresh (Reader.whole (applyEdits bs es))
        expectEq "ser:mcorrupt" (resStr m) s!"{outcome} {n}"
        match m.out with
        | .ok st => if outcome == "ok" then expectEq "ser:mcorrupt" (mapStateStr st) s!"{tr} {nl} {c} {nd}"
        | _ => pure ()
      else countSkipped s!"mcorrupt {hash bs} {edits}"
      if outcome == "panic" || outcome == "hang" then
        oracleFail "ser:damaged" s!"{label}: reading a damaged stream ({edits}): {outcome}"
    | _, _ => parseError line
  | _ => parseError line

def handleSer (line : String) (toks : List String) : M Unit := do
  match toks with
  | "pcorrupt" :: rest => handlePCorrupt line rest
  | "mcorrupt" :: rest => handleMCorrupt line rest
  | "evolve" :: rest => handleEvolve line rest
  | "pwrite" :: rest => handlePWrite line rest
  | "prestore" :: rest => handlePRestore line rest
  | "ptrunc" :: rest => handlePTrunc line rest
  | "psink" :: rest => handlePSink line rest
  | "mwrite" :: rest => handleMWrite line rest
  | "mrestore" :: rest => handleMRestore line rest
  | "mtrunc" :: rest => handleMTrunc line rest
  | "msink" :: rest => handleMSink line rest
  | "mdirty" :: rest => handleMDirty line rest
  | _ => parseError line

end UtreexoVerif.Driver
