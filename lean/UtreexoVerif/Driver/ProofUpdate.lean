/-
  Properties C07 / C08: `pupdate` and `pundo` lines — every `Proof.Update` / `Proof.Undo` call
  of the light client replayed on the transliterated model (`Model/ProofUpdate.lean`) with the
  same inputs; the outputs are compared token for token.  (The property oracle for these
  calls — the canonical proof on the specification forest — is evaluated on the `cupdate` /
  `cundo` lines by `Driver/Forest.lean`.)
-/
import UtreexoVerif.Driver.State
import UtreexoVerif.Model.ProofUpdate

namespace UtreexoVerif.Driver
open UtreexoVerif Model Std

def renderCProof (o : Out (CProof H256 × List H256)) : String :=
  match o with
  | .ok (p, hs) => s!"ok {hxs hs} {u64s p.targets} {hxs p.proof}"
  | o => o.tag

/-- the consistent-length precondition under which the model of the cached-proof code is
exact: one cached hash per target and one proof hash per proof position -/
def cachedConsistent (n : U64) (ts : List U64) (ps hs : List H256) : Bool :=
  hs.length == ts.length && ps.length == (ProofPositions (sortU64 ts) n (TreeRows n)).1.length

def handlePUpdate (line : String) (toks : List String) : M Unit := do
  match toks with
  | ct :: cp :: ch :: ah :: bt :: rem :: td :: pn :: ndp :: ndh :: nap :: nah :: res =>
    match parseU64s ct, parseHashes cp, parseHashes ch, parseHashes ah, parseU64s bt, parseNats rem,
          parseU64s td, parseU64 pn, parseU64s ndp, parseHashes ndh, parseU64s nap, parseHashes nah with
    | some ct, some cp, some ch, some ah, some bt, some rem, some td, some pn, some ndp, some ndh, some nap, some nah =>
      if ndp.length != ndh.length || nap.length != nah.length then parseError line
      else if !cachedConsistent pn ct cp ch then count ("dist:pupdate:unmodelled:" ++ res.headD "?") line
      else
        let ud : UpdateDataM H256 := { toDestroy := td, prevNumLeaves := pn, newDel := ndp.zip ndh, newAdd := nap.zip nah }
        let exp := renderCProof (proofUpdate { targets := ct, proof := cp } ch ah bt rem ud)
        count "pupdate" line (ct.length + rem.length > 0)
        count "dist:pupdate:shape" s!"{ct.length} {bt.length} {ah.length} {rem.length} {td.length}" true
        expectEq "pupdate" exp (" ".intercalate res)
    | _, _, _, _, _, _, _, _, _, _, _, _ => parseError line
  | _ => parseError line

def handlePUndo (line : String) (toks : List String) : M Unit := do
  match toks with
  | ct :: cp :: ch :: na :: nl :: dels :: dh :: td :: bpt :: bph :: res =>
    match parseU64s ct, parseHashes cp, parseHashes ch, parseU64 na, parseU64 nl, parseU64s dels,
          parseHashes dh, parseU64s td, parseU64s bpt, parseHashes bph with
    | some ct, some cp, some ch, some na, some nl, some dels, some dh, some td, some bpt, some bph =>
      if !cachedConsistent nl ct cp ch then count ("dist:pundo:unmodelled:" ++ res.headD "?") line
      else
        let exp := renderCProof (proofUndo { targets := ct, proof := cp } na nl dels dh ch td bpt bph)
        count "pundo" line (ct.length > 0)
        count "dist:pundo:shape" s!"{ct.length} {dels.length} {na.toNat} {td.length}" true
        expectEq "pundo" exp (" ".intercalate res)
    | _, _, _, _, _, _, _, _, _, _ => parseError line
  | _ => parseError line

end UtreexoVerif.Driver
