/-
  Forest sessions: `new`, `block`, `undo`, `obs <impl> …`, `stump … update …`.
  The specification forest is advanced by `block`/`undo`; every observation of every
  implementation is compared with the value the specification (or the transliterated
  model) gives for the same query.
-/
import UtreexoVerif.Driver.State
import UtreexoVerif.Model.Verifiers
import UtreexoVerif.Model.PollardAbs

namespace UtreexoVerif.Driver
open UtreexoVerif Model Spec

def encU (rows : Nat) (p : Pos) : U64 := BitVec.ofNat 64 (enc rows p)

/-- TotalRows a map forest labelled `map:<F|P>:<rows>` has now -/
def implRows (label : String) : M (Option Nat) := do
  let s ← get
  match label.splitOn ":" with
  | ["map", _, r] => pure (r.toNat?.map (fun r0 => max r0 s.maxRows))
  | _ => pure none

def nonZeroPlaceholder : H256 := ⟨0x0100000000000000, 0, 0, 0⟩

def handleNew : M Unit :=
  modify fun s => { s with forest := ⟨[]⟩, stack := [], idx := none, maxRows := 0, extra := {},
                           blocks := [], cache := [] }

def handleBlock (line : String) (toks : List String) : M Unit := do
  match toks with
  | [d, a, _t, _p] =>
    match parseHashes d, parseHashes a with
    | some dels, some adds =>
      let s ← get
      let f' := s.forest.modify dels adds
      let afterDel := s.forest.delLeaves dels
      let destroyed := match rootsToDestroy nonZeroPlaceholder adds.length (BitVec.ofNat 64 afterDel.numLeaves) afterDel.roots with
        | .ok l => !l.isEmpty
        | _ => false
      let bi : BlockInfo := { dels := dels, adds := adds, prevN := s.forest.numLeaves, destroyed := destroyed }
      set { s with stack := s.forest :: s.stack, blocks := bi :: s.blocks, forest := f', idx := none,
                   maxRows := max s.maxRows (forestRows f'.numLeaves) }
      count "block" line (dels.length + adds.length > 0)
      -- shape of the forest the block leaves behind: number of trees (roots) and rows
      let nRoots := (treeRows f'.numLeaves).length
      let rb := if nRoots ≤ 4 then "1-4" else if nRoots ≤ 8 then "5-8" else if nRoots ≤ 11 then "9-11" else "12-16"
      count s!"dist:forest:roots:{rb}" ("roots " ++ line)
      let rw := forestRows f'.numLeaves
      count s!"dist:forest:rows:{if rw ≤ 8 then "0-8" else if rw ≤ 11 then "9-11" else "12-16"}" ("rows " ++ line)
    | _, _ => parseError line
  | _ => parseError line

def handleUndo (line : String) : M Unit := do
  let s ← get
  match s.stack with
  | f :: rest =>
    -- a cached proof loses the leaves the undone block added; the leaves it deleted are
    -- documented as not restored
    let adds := match s.blocks with
      | b :: _ => b.adds
      | [] => []
    set { s with forest := f, stack := rest, blocks := s.blocks.drop 1, lastUndone := s.blocks.head?, idx := none,
                 cache := s.cache.filter (fun x => !adds.contains x) }
    count "undo" line
  | [] => parseError line

/-- model of the three verifier entry points, as the string the harness prints -/
def modelVerify (impl : String) (n : U64) (roots : List H256) (hs : List H256) (ts : List U64)
    (ps : List H256) (totalRows : Option Nat) : String :=
  if impl == "stump" then
    match verify n roots hs ts ps with
    | .ok idx => "ok " ++ nats idx
    | o => o.tag
  else if impl == "pollard" then (pollardVerify n roots hs ts ps).tag
  else match totalRows with
    | some r => (mapVerify n (BitVec.ofNat 8 r) roots hs ts ps).tag
    | none => (verify n roots hs ts ps).tag

def handleObs (line : String) (toks : List String) : M Unit := do
  let I ← getIndex
  let rows := I.rows
  match toks with
  | impl :: "roots" :: rest =>
    count "roots" line (I.n > 0)
    expectEq "roots" s!"{I.n} {hxs I.roots}" (" ".intercalate rest)
    let _ := impl
  | [_impl, "pos", h, res] =>
    match H256.ofHex? h with
    | some hh =>
      let exp := match I.posOf hh with
        | some p => toString (enc rows p)
        | none => "none"
      count "pos" line
      expectEq "pos" exp res
    | none => parseError line
  | [_impl, "posbatch", hs, res] =>
    -- MapPollard.GetLeafHashPositions: per hash the position of the live tracked leaf, 0 otherwise
    match parseHashes hs with
    | some hl =>
      let exp := hl.map (fun h => match I.posOf h with
        | some p => enc rows p
        | none => 0)
      count "posbatch" line (exp.any (· != 0))
      expectEq "posbatch" (nats exp) res
    | none => parseError line
  | [impl, "hash", p, res] =>
    match p.toNat? with
    | some pp =>
      let exp := match I.nodeAtEnc pp with
        | some h => hx h
        | none => "z"
      count "hash" line (exp != "z")
      -- the model of Pollard.getNode/getHash (DetectOffset + niece walk, Model/PollardAbs) on
      -- the same input; `Props.C10.pollardGetHashNiece_spec` proves it equal to the
      -- specification look-up, the driver ties it to the Go code (small forests: the model
      -- recomputes the collapsed trees per query)
      if impl == "pollard" && I.n ≤ 40 && pp < 2 ^ 64 then
        let s ← get
        let m := PollardAbs.pollardGetHashNiece s.forest (BitVec.ofNat 64 pp)
        count "pollardhash" line (m != H256.zero)
        expectEq "pollardhash" (hx m) res
      if exp == res then pure ()
      else
        -- Known finding C10.maphash.outofrange: MapPollard.GetHash translates a position
        -- that lies beyond the forest (p ≥ 2^(TreeRows+1)-1) into TotalRows coordinates,
        -- where it denotes a node of a higher row.  Model of that behaviour:
        let tr ← implRows impl
        let pred : Option String := match tr with
          | some total =>
            let treeRows := TreeRows (BitVec.ofNat 64 I.n)
            if total ≠ treeRows.toNat && pp ≥ 2 ^ (treeRows.toNat + 1) - 1 && pp < 2 ^ 64 then
              let p' := translatePos (BitVec.ofNat 64 pp) treeRows (BitVec.ofNat 8 total)
              let row := DetectRow p' (BitVec.ofNat 8 total)
              let off := p' - startPositionAtRow row (BitVec.ofNat 8 total)
              some (match I.byRO.get? (row.toNat, off.toNat) with
                | some h => hx h
                | none => "z")
            else none
          | none => none
        if pred == some res then
          knownFinding "C10.maphash.outofrange" s!"{impl} GetHash({pp}) = {res}, no node at that position"
        else mismatch "hash" exp res
    | none => parseError line
  | _impl :: "prove" :: req :: res =>
    match parseHashes req with
    | some rq =>
      let exp := match I.canon rq with
        | some (ts, hs) => s!"ok {nats (ts.map (enc rows))} {hxs hs}"
        | none => "err"
      count "prove" line
      expectEq "prove" exp (" ".intercalate res)
    | none => parseError line
  | [_impl, "pdump", nodes, mapped] =>
    -- the pointer forest holds exactly the nodes of the specification forest (an empty root
    -- is a childless node with the zero hash) and maps every live leaf to its position
    let specNodes := (I.byPos.toList.map (fun (p, (h, l)) => (p, h, l || h == H256.zero))).mergeSort (fun a b => a.1 ≤ b.1)
    let expN := if specNodes.isEmpty then "-" else ",".intercalate (specNodes.map (fun (p, h, l) => s!"{p}:{hx h}:{b01 l}"))
    let specLeaves := (I.byLeaf.toList.map (fun (h, p) => (enc rows p, h))).mergeSort (fun a b => a.1 ≤ b.1)
    let expM := if specLeaves.isEmpty then "-" else ",".intercalate (specLeaves.map (fun (p, h) => s!"{p}:{hx h}"))
    count "pdump" line (I.n > 0)
    expectEq "pdump" s!"{expN} {expM}" s!"{nodes} {mapped}"
  | [_impl, "count", a, b] =>
    let s ← get
    let live := s.forest.liveLeaves.length
    count "count" line
    expectEq "count" s!"{live} {I.n - live}" s!"{a} {b}"
  | [_impl, "cachedcount", a] =>
    let s ← get
    count "cachedcount" line
    expectEq "cachedcount" (toString s.forest.liveLeaves.length) a
  | impl :: "hverify" :: h :: t :: p :: res =>
    -- honest proof (C02): the model must agree, the spec says it is the canonical proof of
    -- live leaves, so it must be accepted, and the stand-alone verifier must report exactly
    -- the trees that contain the targets
    match parseHashes h, parseU64s t, parseHashes p with
    | some hs, some ts, some ps =>
      let tr ← implRows impl
      let got := " ".intercalate res
      let exp := modelVerify impl (BitVec.ofNat 64 I.n) I.roots hs ts ps tr
      count "hverify" line
      expectEq "hverify" exp got
      match I.canon hs with
      | some (cts, cps) =>
        if cts.map (enc rows) != ts.map (·.toNat) || cps != ps then
          oracleFail "hverify" "the reference prover's proof is not the canonical proof of the specification"
        else if !got.startsWith "ok" then
          oracleFail "hverify" s!"honest canonical proof rejected by {impl}: {got}"
        else if impl == "stump" then
          -- trees (indexes into the roots, highest tree first) that contain a target
          let rowsDesc := treeRows I.n
          let treeIdx (p : Pos) : Option Nat :=
            rowsDesc.findIdx? (fun h => p.1 ≤ h && p.2 >>> (h - p.1) == 2 * (I.n >>> (h + 1)))
          let want := ((cts.filterMap treeIdx).mergeSort (· ≤ ·)).eraseDups
          let have_ := match parseNats ((res.drop 1).headD "-") with
            | some l => (l.mergeSort (· ≤ ·))
            | none => []
          if want != have_ then
            oracleFail "hverify" s!"Verify reported trees {have_}, the targets lie in trees {want}"
      | none => oracleFail "hverify" "honest proof of leaves that are not live in the specification"
    | _, _, _ => parseError line
  | impl :: "rverify" :: _h :: _t :: _p :: res =>
    -- Verify(remember=true) of an input that Verify(remember=false) accepted just before
    let got := " ".intercalate res
    count "rverify" line
    if got != "ok" then oracleFail "rverify" s!"Verify(remember=true) of an accepted input returned {got} (impl {impl})"
  | impl :: "pverify" :: h :: t :: _p :: res =>
    -- MapPollard.VerifyPartialProof on untrusted input: total (C04) and sound (C03)
    match parseHashes h, parseU64s t with
    | some hs, some ts =>
      let tr ← implRows impl
      let got := " ".intercalate res
      count "pverify" line (got == "ok")
      if got == "panic" || got == "hang" then oracleFail "pverify" s!"VerifyPartialProof did not return normally: {got} (impl {impl})"
      if got == "ok" && hs.all (· != H256.zero) && hs.length == ts.length then
        let bad := (ts.zip hs).filter (fun (t, hh) => I.nodeAtEnc t.toNat != some hh)
        if !bad.isEmpty then
          let treeRows := TreeRows (BitVec.ofNat 64 I.n)
          let isKnown := match tr with
            | some total =>
              total ≠ treeRows.toNat &&
              bad.all (fun (t, hh) =>
                t.toNat ≥ 2 ^ (treeRows.toNat + 1) - 1 &&
                I.nodeAtEnc (translatePos t (BitVec.ofNat 8 total) treeRows).toNat == some hh)
            | none => false
          if isKnown then
            knownFinding "C03.mapverify.totalrows" s!"{impl} VerifyPartialProof accepted {hx bad.head!.2} at position {bad.head!.1.toNat} (TotalRows coordinates)"
          else
            oracleFail "sound" s!"VerifyPartialProof accepted claim {hx bad.head!.2} at position {bad.head!.1.toNat} which is false (impl {impl})"
    | _, _ => parseError line
  | impl :: "verify" :: h :: t :: p :: res =>
    match parseHashes h, parseU64s t, parseHashes p with
    | some hs, some ts, some ps =>
      let tr ← implRows impl
      let got := " ".intercalate res
      let exp := modelVerify impl (BitVec.ofNat 64 I.n) I.roots hs ts ps tr
      count "verify" line (got != "err")
      expectEq "verify" exp got
      -- soundness oracle (C03): an accepted proof of non-zero hashes states only true facts
      if got.startsWith "ok" && hs.all (· != H256.zero) && hs.length == ts.length then
        let bad := (ts.zip hs).filter (fun (t, hh) => I.nodeAtEnc t.toNat != some hh)
        if !bad.isEmpty then
          -- Known finding C03.mapverify.totalrows: MapPollard.Verify also accepts targets
          -- written in TotalRows coordinates (it translates them to TreeRows coordinates
          -- first); such a target is a non-existent position in the API's coordinates.
          let treeRows := TreeRows (BitVec.ofNat 64 I.n)
          let isKnown := match tr with
            | some total =>
              total ≠ treeRows.toNat &&
              bad.all (fun (t, hh) =>
                t.toNat ≥ 2 ^ (treeRows.toNat + 1) - 1 &&
                I.nodeAtEnc (translatePos t (BitVec.ofNat 8 total) treeRows).toNat == some hh)
            | none => false
          if isKnown then
            knownFinding "C03.mapverify.totalrows" s!"{impl} accepted {hx bad.head!.2} at position {bad.head!.1.toNat} (TotalRows coordinates)"
          else
            oracleFail "sound" s!"accepted claim {hx bad.head!.2} at position {bad.head!.1.toNat} is false (impl {impl})"
    | _, _, _ => parseError line
  | impl :: what :: _ =>
    if what == "modifyfail" || what == "undofail" then mismatch what "ok" (impl ++ " " ++ what)
    else parseError line
  | _ => parseError line

/-- what a cached proof for the leaf list `c` must be: the (position, leaf) pairs as a set
(rendered sorted by position) and the canonical proof hashes -/
def cachedExpect (I : Spec.Index H256) (c : List H256) : Option String :=
  match I.canon c with
  | some (ts, hs) =>
    let pairs := ((ts.map (enc I.rows)).zip c).mergeSort (fun a b => a.1 ≤ b.1)
    some s!"{nats (pairs.map (·.1))} {hxs (pairs.map (·.2))} {hxs hs}"
  | none => none

def cachedGot (hs : List H256) (ts : List U64) (ps : List H256) : String :=
  let pairs := ((ts.map (·.toNat)).zip hs).mergeSort (fun a b => a.1 ≤ b.1)
  s!"{nats (pairs.map (·.1))} {hxs (pairs.map (·.2))} {hxs ps}"

/-- compare what the light client holds with the canonical proof of the expected set -/
def checkCached (kind : String) (line : String) (rest : List String) (knownCls : Option String := none) : M Unit := do
  let s ← get
  let I ← getIndex
  count kind line (!s.cache.isEmpty)
  let mismatch (k e g : String) : M Unit :=
    match knownCls with
    | some cls => knownFinding cls s!"{k}: expected {trunc e 120} got {trunc g 120}"
    | none => mismatch k e g
  let expectEq (k e g : String) : M Unit := if e == g then pure () else mismatch k e g
  match rest with
  | [hs, ts, ps, v] =>
    match parseHashes hs, parseU64s ts, parseHashes ps with
    | some hs, some ts, some ps =>
      if hs.length != ts.length then mismatch kind "as many targets as hashes" s!"{hs.length} hashes, {ts.length} targets"
      else match cachedExpect I s.cache with
        | some exp =>
          expectEq kind exp (cachedGot hs ts ps)
          if v != "v=ok" then mismatch kind "v=ok" v
        | none => oracleFail kind "expected cached leaf is not live in the specification forest (harness/driver drift)"
    | _, _, _ => parseError line
  | [res] => mismatch kind "a cached proof" res
  | _ => parseError line

/-- `cupdate <rememberIdx> <hashes> <targets> <proof> v=<verify>`: follows the `block` line -/
def handleCUpdate (line : String) (toks : List String) : M Unit := do
  match toks with
  | rem :: rest =>
    match parseNats rem with
    | some rem =>
      let s ← get
      let (dels, adds) := match s.blocks with
        | b :: _ => (b.dels, b.adds)
        | [] => ([], [])
      let remembered := rem.filterMap (fun i => adds[i]?)
      set { s with cache := s.cache.filter (fun x => !dels.contains x) ++ remembered }
      checkCached "cupdate" line rest
    | none => parseError line
  | [] => parseError line

/-- `cundo <hashes> <targets> <proof> v=<verify>`: follows the `undo` line -/
def handleCUndo (line : String) (toks : List String) : M Unit := do
  let s ← get
  -- Known findings (see /verif/known_findings.jsonl): Proof.Undo loses or keeps leaves when
  -- the undone block's additions overwrote empty roots, and when it undoes back to the empty
  -- accumulator.  Deviations are attributed to those classes only for such blocks.
  let cls := match s.lastUndone with
    | some b => if b.prevN == 0 then some "C08.undo.toEmpty"
                else if b.destroyed then some "C08.undo.emptyRootsOverwritten" else none
    | none => none
  checkCached "cundo" line toks cls

/-- `stump <roots> <n> update <D> <A> <T> <P> <result…>` -/
def handleStump (line : String) (toks : List String) : M Unit := do
  match toks with
  | r :: n :: "update" :: d :: a :: t :: p :: res =>
    match parseHashes r, parseU64 n, parseHashes d, parseHashes a, parseU64s t, parseHashes p with
    | some roots, some nn, some dels, some adds, some ts, some ps =>
      let st : Stump H256 := { roots := roots, numLeaves := nn }
      let exp := match st.updateSt nonZeroPlaceholder dels adds ts ps with
        | (s2, .ok ud) =>
          s!"ok {hxs s2.roots} {u s2.numLeaves} {u64s ud.toDestroy} {u ud.prevNumLeaves} " ++
          s!"{u64s (ud.newDel.map (·.1))} {hxs (ud.newDel.map (·.2))} " ++
          s!"{u64s (ud.newAdd.map (·.1))} {hxs (ud.newAdd.map (·.2))}"
        | (s2, .err) => s!"err {hxs s2.roots} {u s2.numLeaves}"   -- the stump left behind by a rejected update
        | (_, o) => o.tag
      count "stumpupdate" line (dels.length + adds.length > 0)
      expectEq "stumpupdate" exp (" ".intercalate res)
    | _, _, _, _, _, _ => parseError line
  | _ => parseError line

end UtreexoVerif.Driver
