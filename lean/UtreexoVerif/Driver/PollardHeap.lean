/-
  Correspondence run of the heap model of the pointer forest (`Model/PollardHeap.lean`).

  Every operation the harness applies to a `Pollard` instance of a `Sim` session is replayed
  on the heap model:

  * `new` resets the model to `NewAccumulator()`; `ph on` (emitted right after `new` by the
    families that carry `ph` lines) switches the replay on for the session;
  * `block <dels> <adds> <targets> <proof>` carries the arguments of `Modify`; the line
    `ph modify <label> <result> <rememberBits> <state>` that follows the Go call supplies what
    the `block` line lacks (the `Leaf.Remember` flags) plus the Go result and the Go state:
    the model runs `Modify` there and everything is compared;
  * `ph undo <label> <result> <numAdds> <targets> <delHashes> <prevRoots> <state>` carries the
    arguments of `Undo` (the `undo` line has none), its result and the Go state;
  * `<state>` = `<NumLeaves> <NumDels> <roots> <dump> <map>`: `dump` = every reachable node
    `pos:hash:leaf:remember` (the read-only walker `VerifDump` of export_verif.go), `map` =
    `pos:hash` for every `NodeMap` entry (`calculatePosition` of the mapped node, its `data`)
    preceded by `len(NodeMap)`; both sorted by position.  Every dumped node also carries its
    AUNT pointer and every map entry the node it points to, both as the position at which the
    pointed-to node sits in the niece structure (`-` = nil, `?` = not reachable; the harness
    reads the pointers by reflection), so the dump describes the complete reachable pointer
    structure.  Compared ENTRY BY ENTRY;
  * `obs pollard roots|pos|hash|prove|count|pdump|verify|hverify …`: the same query is run
    on the heap model and compared with what the Go code answered.

  Kinds: `ph:modify`, `ph:undo` (result tag ok/err/panic/hang), `ph:numleaves`, `ph:numdels`,
  `ph:roots`, `ph:dump`, `ph:map`, `ph:wf` (the executable well-formedness check of
  `Props/PollardHeap.lean` on the model state), `ph:obs:roots|pos|hash|prove|count|pdump|verify`.
  After the first divergence of a session the model state is no longer the Go state: the
  session is marked desynchronised and further `ph` comparisons are only counted
  (`ph:desynced`) until the next `new`, so the first MISMATCH pinpoints the diverging
  operation.
-/
import UtreexoVerif.Driver.State
import UtreexoVerif.Model.PollardHeap
import UtreexoVerif.Model.PollardHeapWF
import UtreexoVerif.Model.PollardHeapSerial
import UtreexoVerif.Driver.Serial

namespace UtreexoVerif.Driver
open UtreexoVerif Model Model.PollardHeap

structure PHSt where
  p : Pollard H256 := newAccumulator
  /-- replay switched on for this session (`ph on`) -/
  active : Bool := false
  /-- arguments of the latest `block` line not yet consumed by `ph modify` -/
  pending : Option (List H256 × List H256 × List U64) := none
  desynced : Bool := false
  /-- number of Modify/Undo calls replayed in this session, and the latest one -/
  opNo : Nat := 0
  lastOp : String := "new"

instance : Inhabited PHSt := ⟨{}⟩

initialize phRef : IO.Ref PHSt ← IO.mkRef {}

def phGet : M PHSt := (phRef.get : IO PHSt)
def phSet (s : PHSt) : M Unit := (phRef.set s : IO Unit)

/-- run a model function on the replayed state -/
def phRun {α} (x : PM H256 α) : M (Out α) := do
  let st ← phGet
  phSet {}
  let (o, p') := x st.p
  phSet { st with p := p' }
  pure o

def phDesync : M Unit := do
  let st ← phGet
  phSet { st with desynced := true }

/-- compare; a difference is a MISMATCH and desynchronises the session -/
def phExpect (kind expected got : String) : M Unit :=
  if expected == got then pure () else do
    let st ← phGet
    mismatch kind s!"[first divergence of the session: operation {st.opNo} ({st.lastOp})] {expected}" got
    phDesync

def dumpEntry (withRem : Bool) (d : DumpNode H256) : String :=
  let base := s!"{d.1.toNat}:{hx d.2.1}:{b01 d.2.2.1}"
  if withRem then base ++ ":" ++ b01 d.2.2.2 else base

def splitList (s : String) : List String := if s == "-" then [] else s.splitOn ","

/-- entry-by-entry comparison of two rendered lists -/
def phCompareLists (kind : String) (expected got : List String) : M Unit := do
  let rec go (i : Nat) : List String → List String → Option String
    | [], [] => none
    | e :: es, g :: gs => if e == g then go (i + 1) es gs else some s!"entry {i}: model {e} / Go {g}"
    | e :: _, [] => some s!"entry {i}: model {e} / Go has only {i} entries"
    | [], g :: _ => some s!"entry {i}: model has only {i} entries / Go {g}"
  match go 0 expected got with
  | none => pure ()
  | some d => do
    let st ← phGet
    mismatch kind s!"[first divergence of the session: operation {st.opNo} ({st.lastOp})] {expected.length} entries"
      s!"{got.length} entries; first difference at {d}"
    phDesync

def modelDump (p : Pollard H256) (withRem : Bool) : List String :=
  ((dumpNodes p).mergeSort (fun a b => a.1.toNat ≤ b.1.toNat)).map (dumpEntry withRem)

def modelMap : M (Option (List String)) := do
  match ← phRun dumpMap with
  | .ok l =>
    let l := l.map (fun (h, pos) => (pos.toNat, hx h))
    let l := l.mergeSort (fun a b => a.1 < b.1 || (a.1 == b.1 && a.2 ≤ b.2))
    pure (some (l.map (fun (pos, h) => s!"{pos}:{h}")))
  | _ => pure none

/-- the full dump: `pos:hash:leaf:remember:aunt` (aunt as the position of the node pointed to,
`-` for nil, `?` for a node that is not reachable) and the map entries `pos:hash:at` -/
def modelDumpFull (p : Pollard H256) : M (List String × Option (List String)) := do
  let nodes := (dumpFull p).mergeSort (fun a b => a.pos.toNat ≤ b.pos.toNat)
  -- heap index ↦ position; the first node in position order wins
  let at_ : Std.HashMap Nat Nat := nodes.foldr (fun n m => m.insert n.idx n.pos.toNat) {}
  let where_ (q : Ptr) : String := match q with
    | none => "-"
    | some i => match at_.get? i with
      | some pos => toString pos
      | none => "?"
  let ds := nodes.map (fun n => s!"{n.pos.toNat}:{hx n.data}:{b01 n.leaf}:{b01 n.remember}:{where_ n.aunt}")
  match ← phRun dumpMapFull with
  | .ok l =>
    let l := l.map (fun (h, pos, i) => (pos.toNat, hx h, where_ (some i)))
    let l := l.mergeSort (fun a b => a.1 < b.1 || (a.1 == b.1 && a.2.1 ≤ b.2.1))
    pure (ds, some (l.map (fun (pos, h, w) => s!"{pos}:{h}:{w}")))
  | _ => pure (ds, none)

/-- compare the Go state `<NumLeaves> <NumDels> <roots> <dump> <maplen> <map>` with the model -/
def phCompareState (line : String) (toks : List String) : M Unit := do
  match toks with
  | [n, nd, roots, dump, mapLen, mapped] =>
    let st ← phGet
    let p := st.p
    count "ph:numleaves" line
    phExpect "ph:numleaves" (toString p.numLeaves.toNat) n
    count "ph:numdels" line
    phExpect "ph:numdels" (toString p.numDels.toNat) nd
    count "ph:roots" line (p.numLeaves != 0#64)
    match ← phRun getRootHashes with
    | .ok rs => phExpect "ph:roots" (hxs rs) roots
    | o => phExpect "ph:roots" o.tag roots
    if dump == "skip" then count "ph:dumpskipped" line
    else
      let (ds, ms) ← modelDumpFull p
      count "ph:dump" line (p.numLeaves != 0#64)
      phCompareLists "ph:dump" ds (splitList dump)
      count "ph:map" line (!p.nodeMap.isEmpty)
      phExpect "ph:map" (toString p.nodeMap.length) mapLen
      match ms with
      | some l => phCompareLists "ph:map" l (splitList mapped)
      | none => phExpect "ph:map" "panic" mapped
    -- the executable well-formedness invariant, on the model state
    if p.numLeaves.toNat > 300 then count "ph:wfskipped" line
    else
      count "ph:wf" line (p.numLeaves != 0#64)
      match PollardHeap.wfCheck p with
      | none => pure ()
      | some why => do
        mismatch "ph:wf" "well-formed heap" why
        phDesync
  | _ => parseError line

def parseBits (s : String) : Option (List Bool) :=
  if s == "-" then some [] else some (s.toList.map (· == '1'))

/-- `ph …` lines -/
def handlePH (line : String) (toks : List String) : M Unit := do
  match toks with
  | ["on"] =>
    let st ← phGet
    phSet { st with active := true }
  | "modify" :: label :: res :: rem :: state =>
    let st ← phGet
    if !st.active || label != "pollard" then return
    if st.desynced then
      count "ph:desynced" line false
      return
    match st.pending, parseBits rem with
    | some (dels, adds, targets), some rem =>
      if rem.length != adds.length then parseError line
      else
        let opDesc := s!"Modify: {dels.length} deletions, {adds.length} additions"
        phSet { st with pending := none, opNo := st.opNo + 1, lastOp := opDesc }
        let o ← phRun (PollardHeap.modify (adds.zip rem) dels targets)
        count "ph:modify" line (dels.length + adds.length > 0)
        phExpect "ph:modify" o.tag res
        phCompareState line state
    | _, _ => parseError line
  | "undo" :: label :: res :: numAdds :: targets :: delHashes :: prevRoots :: state =>
    let st ← phGet
    if !st.active || label != "pollard" then return
    if st.desynced then
      count "ph:desynced" line false
      return
    match parseU64 numAdds, parseU64s targets, parseHashes delHashes, parseHashes prevRoots with
    | some na, some ts, some dh, some pr =>
      let opDesc := s!"Undo: {na.toNat} additions, {dh.length} deletions"
      phSet { st with opNo := st.opNo + 1, lastOp := opDesc }
      let o ← phRun (PollardHeap.undo na ts dh pr)
      count "ph:undo" line
      phExpect "ph:undo" o.tag res
      phCompareState line state
    | _, _, _, _ => parseError line
  | _ => parseError line

/-- what `obs pollard prove` prints for a model result -/
def renderProve (o : Out (List U64 × List H256)) : String :=
  match o with
  | .ok (ts, ps) => s!"ok {u64s ts} {hxs ps}"
  | o => o.tag

/-- `ser pwrite pollard <n> <err> <SerializeSize> <hex>`: `WriteTo` into an unbounded writer.
The heap model writes the replayed state (bytes, count, `SerializeSize` compared with Go),
then `RestorePollardFrom` of the heap model reads the stream back: the restored heap must be
well formed, dump like the original (remember flags are not serialised) and consume the whole
stream. -/
def phSerWrite (line : String) (n e size hexs : String) : M Unit := do
  let st ← phGet
  let p := st.p
  let (res, sink) := writeToH p { room := 1 <<< 40 }
  count "ph:ser:write" line (p.numLeaves != 0#64)
  let sz := match (serializeSize p).1 with
    | .ok z => toString z
    | o => o.tag
  phExpect "ph:ser:write" s!"{res.n} {b01 (res.out.tag != "ok")} {sz} {bytesHex sink.written}"
    s!"{n} {e} {size} {hexs}"
  if res.out.tag == "ok" then
    count "ph:ser:restore" line (p.numLeaves != 0#64)
    match restoreH (H := H256) (Serial.Reader.whole sink.written) with
    | ⟨cnt, .ok q⟩ =>
      phExpect "ph:ser:restore" (toString sink.written.length) (toString cnt)
      phExpect "ph:ser:restore" s!"{p.numLeaves.toNat} {p.numDels.toNat}" s!"{q.numLeaves.toNat} {q.numDels.toNat}"
      phCompareLists "ph:ser:restore" (modelDump p false) (modelDump q false)
      let mp := (dumpMap p).1
      let mq := (dumpMap q).1
      let render (o : Out (List (H256 × U64))) : List String := match o with
        | .ok l => (l.map (fun (h, pos) => s!"{pos.toNat}:{hx h}")).mergeSort (· ≤ ·)
        | o => [o.tag]
      phCompareLists "ph:ser:restore" (render mp) (render mq)
      if q.numLeaves.toNat ≤ 300 then
        match PollardHeap.wfCheck q with
        | none => pure ()
        | some why => mismatch "ph:ser:restore" "restored heap well formed" why
    | ⟨cnt, o⟩ => mismatch "ph:ser:restore" "ok" s!"{o.tag} after {cnt} bytes"

/-- hook called for EVERY line before the regular dispatch: follows `new` / `block` and
answers the observations of the `pollard` instance on the heap model -/
def phHook (line : String) (toks : List String) : M Unit := do
  match toks with
  | ["new"] => phSet {}
  | ["block", d, a, t, _p] =>
    let st ← phGet
    if st.active then
      match parseHashes d, parseHashes a, parseU64s t with
      | some dels, some adds, some ts => phSet { st with pending := some (dels, adds, ts) }
      | _, _, _ => pure ()
  | ["ser", "pwrite", "pollard", n, e, size, hexs] =>
    let st ← phGet
    if !st.active then return
    if st.desynced then
      count "ph:desynced" line false
      return
    phSerWrite line n e size hexs
  | "obs" :: "pollard" :: rest =>
    let st ← phGet
    if !st.active then return
    if st.desynced then
      count "ph:desynced" line false
      return
    match rest with
    | "roots" :: got =>
      count "ph:obs:roots" line (st.p.numLeaves != 0#64)
      let exp := match ← phRun getRootHashes with
        | .ok rs => s!"{st.p.numLeaves.toNat} {hxs rs}"
        | o => o.tag
      phExpect "ph:obs:roots" exp (" ".intercalate got)
    | ["pos", h, res] =>
      match H256.ofHex? h with
      | some hh =>
        let exp := match ← phRun (getLeafPosition hh) with
          | .ok (pos, true) => toString pos.toNat
          | .ok (_, false) => "none"
          | o => o.tag
        count "ph:obs:pos" line (exp != "none")
        phExpect "ph:obs:pos" exp res
      | none => pure ()
    | ["hash", pos, res] =>
      match pos.toNat? with
      | some pp =>
        if pp < 2 ^ 64 then
          let exp := match ← phRun (getHash (BitVec.ofNat 64 pp)) with
            | .ok h => hx h
            | o => o.tag
          count "ph:obs:hash" line (exp != "z")
          phExpect "ph:obs:hash" exp res
      | none => pure ()
    | "prove" :: req :: res =>
      match parseHashes req with
      | some rq =>
        let o ← phRun (prove rq)
        count "ph:obs:prove" line
        phExpect "ph:obs:prove" (renderProve o) (" ".intercalate res)
      | none => pure ()
    | ["count", a, b] =>
      count "ph:obs:count" line
      phExpect "ph:obs:count" s!"{st.p.nodeMap.length} {st.p.numDels.toNat}" s!"{a} {b}"
    | ["pdump", nodes, mapped] =>
      count "ph:obs:pdump" line (st.p.numLeaves != 0#64)
      phCompareLists "ph:obs:pdump" (modelDump st.p false) (splitList nodes)
      match ← modelMap with
      | some l => phCompareLists "ph:obs:pdump" l (splitList mapped)
      | none => phExpect "ph:obs:pdump" "panic" mapped
    | kind :: h :: t :: p :: res =>
      if kind == "verify" || kind == "hverify" || kind == "rverify" then
        match parseHashes h, parseU64s t, parseHashes p with
        | some hs, some ts, some ps =>
          let o ← phRun (PollardHeap.verify hs ts ps (kind == "rverify"))
          count "ph:obs:verify" line (o.tag == "ok")
          phExpect "ph:obs:verify" o.tag (" ".intercalate res)
        | _, _, _ => pure ()
    | _ => pure ()
  | _ => pure ()

end UtreexoVerif.Driver
