/-
  Sparse forests with huge leaf counts (families `sparse` / `sparseexh`, harness/fam_sparse.go):
  state-free lines that carry everything the model needs.

    sforest <n> <roots> <known positions> <known hashes> <targets>
        the ground truth of the current sparse forest: every position whose true hash the
        harness knows (targets, proof positions, every computed ancestor, every root).  The
        driver re-hashes it with the Lean SHA-512/256 (every known node whose two children are
        known, every root against the stump) and keeps it for the soundness oracle.
    sverify <tag> <n> <roots> <hashes> <targets> <proof> <result…>
        `Verify(Stump{roots, n}, hashes, Proof{targets, proof})` compared with
        `modelVerify "stump"`.  tag = `honest` | `honest:<ctx>` (must be accepted, and the root
        indexes must be those of the trees that hold the targets) | `mut:<kind>` (when accepted:
        every claimed (target, hash) pair is checked against the ground truth).
    sexpect <ctx> <expected…> = <observed…>
        an expectation the harness derived from its own ground truth (independently of the
        library's position arithmetic), in a canonical rendering; the driver compares.

  Geometry on this side is `Spec.enc` / `Spec.isRootPos` on (row, offset) pairs: no model code.
-/
import UtreexoVerif.Driver.State
import UtreexoVerif.Driver.Forest

namespace UtreexoVerif.Driver
open UtreexoVerif Model Spec Std

/-- (row, offset) of an encoded position in a forest allocated for `rows` rows -/
def spDec (rows : Nat) (p : Nat) : Option Pos :=
  (List.range (rows + 1)).findSome? fun r =>
    let start := enc rows (r, 0)
    if start ≤ p && p < start + 2 ^ (rows - r) then some (r, p - start) else none

/-- the node exists in a forest of `n` leaves: its subtree lies within the first `n` leaves -/
def spExists (n : Nat) (p : Pos) : Bool := (p.2 + 1) * 2 ^ p.1 ≤ n

/-- row of the root of the tree that holds the (existing) node: the highest bit in which `n`
and the node's leftmost leaf differ -/
def spTreeOf (n : Nat) (p : Pos) : Nat := Nat.log2 (n ^^^ (p.2 * 2 ^ p.1))

/-- index into `Stump.Roots` (largest tree first) of the tree whose root is on row `h` -/
def spRootIdx (n h : Nat) : Nat := ((treeRows n).takeWhile (· != h)).length

structure SparseTruth where
  n : Nat
  rows : Nat
  byPos : HashMap Nat H256

/-- distribution counter: `distinct` = distinct values seen under this kind -/
def dcount (kind value : String) : M Unit := count kind (kind ++ " " ++ value)

def sparseTruth : M (Option SparseTruth) := do
  let s ← get
  match s.extra.get? "sparse:n" >>= String.toNat?, s.extra.get? "sparse:pos" >>= parseNats,
        s.extra.get? "sparse:hashes" >>= parseHashes with
  | some n, some ps, some hs =>
    pure (some { n := n, rows := forestRows n, byPos := (ps.zip hs).foldl (fun m (p, h) => m.insert p h) {} })
  | _, _, _ => pure none

def handleSForest (line : String) (toks : List String) : M Unit := do
  match toks with
  | [n, r, kpS, khS, ts] =>
    match n.toNat?, parseHashes r, parseNats kpS, parseHashes khS, parseNats ts with
    | some n, some roots, some kp, some kh, some ts =>
      if kp.length != kh.length then parseError line
      else
        modify fun s => { s with extra := ((s.extra.insert "sparse:n" (toString n)).insert "sparse:pos" kpS).insert "sparse:hashes" khS }
        let rows := forestRows n
        let byPos : HashMap Nat H256 := (kp.zip kh).foldl (fun m (p, h) => m.insert p h) {}
        -- distributions
        let tpos := ts.filterMap (spDec rows)
        let trees := ((tpos.map (spTreeOf n)).mergeSort (· ≤ ·)).eraseDups
        let r2 (k : Nat) : String := if k < 10 then s!"0{k}" else toString k
        count "sforest" line (!ts.isEmpty)
        let tsS := toks.getLast!
        dcount s!"dist:sparse:rows:{r2 rows}" (toString n)
        dcount s!"dist:sparse:targets:{ts.length}" s!"{n} {tsS}"
        dcount s!"dist:sparse:treestouched:{trees.length}" s!"{n} {tsS}"
        dcount s!"dist:sparse:trees:{r2 roots.length}" (toString n)
        dcount s!"dist:sparse:emptyroots:{(roots.filter (· == H256.zero)).length != 0}" s!"{n} {tsS}"
        dcount s!"dist:sparse:targetrow:{r2 (tpos.foldl (fun a p => max a p.1) 0)}" s!"{n} {tsS}"
        if trees.length ≥ 2 then
          dcount s!"dist:sparse:heightspan:{r2 (trees.getLast! - trees.head!)}" s!"{n} {tsS}"
        -- consistency of the ground truth under the Lean hash function
        if roots.length != (treeRows n).length then
          oracleFail "sforest" s!"{roots.length} roots for {n} leaves"
        let mut bad : Option String := none
        for (p, h) in kp.zip kh do
          match spDec rows p with
          | none => bad := some s!"known position {p} is not a position of a forest with {rows} rows"
          | some (r, o) =>
            if !spExists n (r, o) then
              -- an empty root is "known" to hold nothing
              bad := some s!"known position {p} does not exist in a forest of {n} leaves"
            else
              if isRootPos n (r, o) && roots[spRootIdx n r]? != some h then
                bad := some s!"known hash at root position {p} is not the stump's root"
              if r > 0 then
                match byPos.get? (enc rows (r - 1, 2 * o)), byPos.get? (enc rows (r - 1, 2 * o + 1)) with
                | some l, some rr =>
                  if Hasher.ph l rr != h then bad := some s!"known hash at {p} is not the parent hash of the known hashes below it"
                | _, _ => pure ()
        match bad with
        | some why => oracleFail "sforest" why
        | none => pure ()
    | _, _, _, _, _ => parseError line
  | _ => parseError line

/-- kind under which an `sverify` line is counted -/
def sverifyKind (tag : String) : String :=
  if tag == "honest" then "sverify"
  else if tag.startsWith "honest:" then "sverify:" ++ (tag.drop 7).toString
  else if tag.startsWith "mut:" then "sverify:" ++ (tag.drop 4).toString
  else "sverify:" ++ tag

def handleSVerify (line : String) (toks : List String) : M Unit := do
  match toks with
  | tag :: n :: r :: h :: t :: p :: res =>
    match parseU64 n, parseHashes r, parseHashes h, parseU64s t, parseHashes p with
    | some nn, some roots, some hs, some ts, some ps =>
      let kind := sverifyKind tag
      let got := " ".intercalate res
      let honest := tag == "honest" || tag.startsWith "honest:"
      let exp := modelVerify "stump" nn roots hs ts ps none
      count kind line (got.startsWith "ok")
      expectEq kind exp got
      let nN := nn.toNat
      let rows := forestRows nN
      if honest then
        if !got.startsWith "ok" then
          oracleFail kind s!"honest proof rejected: {got}"
        else
          -- the root indexes reported are those of the trees that hold the targets
          match ts.mapM (fun t => spDec rows t.toNat) with
          | some tpos =>
            if !tpos.all (spExists nN) then oracleFail kind "honest target does not exist (harness defect)"
            else
              let want := ((tpos.map (fun p => spRootIdx nN (spTreeOf nN p))).mergeSort (· ≤ ·)).eraseDups
              let have_ := match parseNats ((res.drop 1).headD "-") with
                | some l => l.mergeSort (· ≤ ·)
                | none => []
              if want != have_ then oracleFail kind s!"Verify reported trees {have_}, the targets lie in trees {want}"
          | none => oracleFail kind "honest target is no position of the forest (harness defect)"
      else
        dcount s!"dist:sverify:{(tag.drop 4).toString}:{res.headD "?"}" line
        if got == "panic" || got == "hang" then
          oracleFail "sverify:total" s!"Verify did not return normally on untrusted input: {got}"
        -- soundness: an accepted proof of non-zero hashes states only true facts
        if got.startsWith "ok" && hs.all (· != H256.zero) && hs.length == ts.length then
          match ← sparseTruth with
          | some T =>
            if T.n != nN then dcount "dist:sparse:claim:notruth" line
            else
              for (t, hh) in ts.zip hs do
                match spDec rows t.toNat with
                | none => oracleFail "sverify:sound" s!"accepted a claim at {t.toNat}, which is no position of a forest with {rows} rows"
                | some pos =>
                  if !spExists nN pos then
                    oracleFail "sverify:sound" s!"accepted a claim at {t.toNat}, which does not exist in a forest of {nN} leaves"
                  else match T.byPos.get? t.toNat with
                    | some truth =>
                      if truth == hh then dcount "dist:sparse:claim:true" s!"{t.toNat} {line}"
                      else oracleFail "sverify:sound" s!"accepted claim {hx hh} at position {t.toNat} is false: the node there is {hx truth}"
                    | none => dcount "dist:sparse:claim:unknown" s!"{t.toNat} {line}"
          | none => dcount "dist:sparse:claim:notruth" line
    | _, _, _, _, _ => parseError line
  | _ => parseError line

def handleSExpect (line : String) (toks : List String) : M Unit := do
  match toks with
  | ctx :: rest =>
    let exp := " ".intercalate (rest.takeWhile (· != "="))
    let got := " ".intercalate ((rest.dropWhile (· != "=")).drop 1)
    let kind := "sexpect:" ++ ctx
    count kind line (exp != "-" && exp != "- -" && exp != "- - -")
    if exp != got then oracleFail kind s!"expected {trunc exp 200} observed {trunc got 200}"
  | [] => parseError line

end UtreexoVerif.Driver
