/-
  `sttl` / `sched` lines (families `schedule`, `scheduleexh`; property C15).

    sttl  <blocks> <res> <dels63> <numLeaves> <toDestroy> <ttls>
    sched <blocks> <limit> <res> <schedule>

  For every line the driver
  * checks the harness input against the specification: the history is well formed and the
    deletion targets are exactly the positions at which the specification forest sees the
    named slots (`Spec.Sched.targetOf`) — "deletion targets as emitted by a prover";
  * replays the block summaries on the transliterated model (`Model/Schedule.lean`) and
    compares tracker state / ttl tables / schedule with what Go produced (MISMATCH);
  * evaluates the C15 oracle (`Spec/Sched.lean`, written from the property text) on what Go
    returned (ORACLE / KNOWN).
-/
import UtreexoVerif.Driver.State
import UtreexoVerif.Model.Schedule
import UtreexoVerif.Spec.Sched

namespace UtreexoVerif.Driver
open UtreexoVerif Model Std

structure SBlock where
  numAdds : Nat
  slots : List Nat
  targets : List U64

def parseSBlock (s : String) : Option SBlock :=
  match s.splitOn "/" with
  | [a, sl, tg] => do
    let a ← a.toNat?
    let sl ← parseNats sl
    let tg ← parseU64s tg
    if sl.length != tg.length then none else pure ⟨a, sl, tg⟩
  | _ => none

def parseSBlocks (s : String) : Option (List SBlock) := (s.splitOn ";").mapM parseSBlock

/-- `;`-separated lists, `.` = no list at all -/
def parseNatLists (s : String) : Option (List (List Nat)) :=
  if s == "." then some [] else (s.splitOn ";").mapM parseNats

def natLists (l : List (List Nat)) : String :=
  if l.isEmpty then "." else ";".intercalate (l.map nats)

def u64Lists (l : List (List U64)) : String :=
  if l.isEmpty then "." else ";".intercalate (l.map u64s)

def ttlLists (l : List (List TTLInfo)) : String :=
  ";".intercalate (l.map fun t =>
    if t.isEmpty then "-" else ",".intercalate (t.map fun e => s!"{e.pos.toNat}:{e.ttl}"))

def historyOf (bs : List SBlock) : Spec.Sched.History := bs.map fun b => ⟨b.numAdds, b.slots⟩

def trackerOf (bs : List SBlock) : Out Tracker :=
  Tracker.ofBlocks (bs.map fun b => (b.targets, BitVec.ofNat 16 b.numAdds))

/-- check the harness input against the specification; returns `true` when it is a
well-formed history with prover targets -/
def checkSchedInput (bs : List SBlock) : M Bool := do
  let h := historyOf bs
  if !Spec.Sched.wellFormed h then
    mismatch "sched:input" "well-formed history" "a block deletes a dead, unknown or repeated slot"
    return false
  let L := Spec.Sched.lives h
  let mut ok := true
  let mut t := 0
  for b in bs do
    let exp := b.slots.map (fun s => (L.targetOf t s).getD 0)
    let got := b.targets.map (·.toNat)
    if exp != got then
      mismatch "sched:targets" s!"block {t}: {nats exp}" (nats got)
      ok := false
    t := t + 1
  return ok

/-- what the driver computes once per history (the `sttl` line and the `sched` lines of a
history carry the same `<blocks>` token): the verdict on the input and the model trackers after
`genTTLs` (unchanged / repaired `getPrevPos`) -/
structure SchedCache where
  tok : String
  inputOK : Bool
  tr : Out Tracker
  trF : Out Tracker

initialize schedCacheRef : IO.Ref (Option SchedCache) ← IO.mkRef none

/-- input check + model `genTTLs` for a history, memoised on the blocks token -/
def schedModels (tok : String) (bs : List SBlock) : M SchedCache := do
  match (← schedCacheRef.get) with
  | some c => if c.tok == tok then return c
  | none => pure ()
  let inputOK ← checkSchedInput bs
  let trM := trackerOf bs
  let c : SchedCache := { tok := tok, inputOK := inputOK, tr := trM.bind (·.genTTLs), trF := trM.bind (·.genTTLsFixed) }
  schedCacheRef.set (some c)
  return c

/-- `GenerateCachingSchedule` from the tracker state after `genTTLs`
(`Model.Tracker.generateCachingScheduleWith` is literally `genTTLsWith` followed by this) -/
def scheduleAfterTTLs (cs : Out Tracker) (limit : Int) : Out (List (List U64)) :=
  cs.bind fun cs => scheduleOfTTLs cs.ttls cs.numAdds.length limit

def bucket (n : Nat) : String :=
  if n ≤ 4 then toString n else if n ≤ 8 then "5-8" else if n ≤ 16 then "9-16" else if n ≤ 64 then "17-64"
  else if n ≤ 256 then "65-256" else ">256"

def anyDestroy (tr : Tracker) : Bool := tr.toDestroy.any (fun l => !l.isEmpty)

/-- a block whose deletions remove a whole tree (one of the de-twinned targets is a root) -/
def emptiesTree (tr : Tracker) : Bool := tr.roots.any (fun rs => rs.any (·.isZombie))

/-- Compare what Go printed with the model.  The model of the unchanged /repo is
`getPrevPos`; `getPrevPosFixed` is the same code with the repair proposed for finding
C15.createdMovedByUndoDel.  Go agreeing with either one is not a model mismatch (so the check
keeps working when the repair is applied to /repo); which one it agreed with is returned:
`some true` = repaired behaviour, `some false` = behaviour of the unchanged code that differs
from the repaired one on this input, `none` = no difference on this input or a mismatch. -/
def compareTwo (kind expU expF got : String) : M (Option Bool) := do
  if got == expF then
    return (if expU == expF then none else some true)
  else if got == expU then return some false
  else
    mismatch kind (if expU == expF then expU else s!"{expU} (or, with getPrevPos repaired: {expF})") got
    return none

def handleSttl (line : String) (toks : List String) : M Unit := do
  match toks with
  | blocksTok :: res :: rest =>
    let some bs := parseSBlocks blocksTok | parseError line
    let c ← schedModels blocksTok bs
    let inputOK := c.inputOK
    let render := fun (o : Out Tracker) => match o with
      | .ok tr => s!"ok {u64Lists tr.deletions} {u64s tr.numLeaves} {u64Lists tr.toDestroy} {ttlLists tr.ttls}"
      | o => o.tag
    let model := c.tr
    let modelF := c.trF
    let got := " ".intercalate (res :: rest)
    let shape := match model with
      | .ok tr => (if anyDestroy tr then "destroy" else if emptiesTree tr then "emptied" else "plain")
      | _ => "fail"
    let h := historyOf bs
    let nontriv := match model with
      | .ok tr => tr.ttls.any (fun l => !l.isEmpty)
      | _ => false
    count s!"sttl:{shape}:blocks{bucket bs.length}:leaves{bucket (Spec.Sched.total h)}" line nontriv
    let _ ← compareTwo "sttl" (render model) (render modelF) got
    -- diagnostic (not a verdict of the property): are the ttl tables exactly the lifetimes?
    if inputOK && res == "ok" then
      match rest with
      | [_, _, _, ttlTok] =>
        let L := Spec.Sched.lives h
        let expT := (List.range bs.length).map fun t =>
          let slots := (List.range (L.before (t + 1) - L.before t)).map (· + L.before t)
          slots.filterMap fun s => match L.death? s with
            | some d => some s!"{s}:{d - t}"
            | none => none
        let expS := ";".intercalate (expT.map fun l => if l.isEmpty then "-" else ",".intercalate l)
        count (if expS == ttlTok then "ttl:exact" else "ttl:deviates") ("ttl " ++ line) (expS == ttlTok)
      | _ => pure ()
  | _ => parseError line

def limitClass (limit : Int) (totalLeaves : Nat) : String :=
  if limit < 0 then "negative" else if limit == 0 then "0"
  else if limit ≤ 3 then toString limit
  else if limit ≥ 65536 then "unbounded"
  else if limit > totalLeaves then "above-total"
  else if limit == totalLeaves then "total"
  else "small"

/-- the four clauses of the C15 oracle; returns the failing ones as (kind, message) -/
def schedOracle (h : Spec.Sched.History) (limit : Nat) (sch : List (List Nat)) : List (String × String) :=
  (if !Spec.Sched.orderOK sch then
    [("sched:order", s!"a block's list is not strictly ascending: {natLists sch}")] else []) ++
  (if !Spec.Sched.slotsOK h sch then
    [("sched:slot", s!"a scheduled position is not the slot of a leaf added in that block and deleted later: {natLists sch}")] else []) ++
  (if !Spec.Sched.memOK h limit sch then
    [("sched:mem", s!"more than {limit} scheduled leaves exist simultaneously: {natLists sch}")] else []) ++
  (if !Spec.Sched.completeOK h limit sch then
    [("sched:complete", s!"limit {limit} >= leaves ever added ({Spec.Sched.total h}) but a leaf that is added and later deleted is not scheduled: {natLists sch}")] else [])

def handleSched (line : String) (toks : List String) : M Unit := do
  match toks with
  | blocksTok :: limitTok :: res :: rest =>
    let some bs := parseSBlocks blocksTok | parseError line
    let some limit := limitTok.toInt? | parseError line
    let c ← schedModels blocksTok bs
    let inputOK := c.inputOK
    let h := historyOf bs
    let model := scheduleAfterTTLs c.tr limit
    let modelF := scheduleAfterTTLs c.trF limit
    let render := fun (o : Out (List (List U64))) => match o with
      | .ok sch => s!"ok {u64Lists sch}"
      | o => o.tag
    let got := " ".intercalate (res :: rest)
    let gotSch : Option (List (List Nat)) := match res, rest with
      | "ok", [schTok] => parseNatLists schTok
      | _, _ => none
    let nontriv := match gotSch with
      | some sch => sch.any (fun l => !l.isEmpty)
      | none => false
    count s!"sched:limit-{limitClass limit (Spec.Sched.total h)}" line nontriv
    let which ← compareTwo "sched" (render model) (render modelF) got
    -- the property oracle (limits from 1 to unbounded, well-formed histories with prover targets)
    if inputOK && limit ≥ 1 then
      let fails := match gotSch with
        | none => [("sched:crash", s!"GenerateCachingSchedule did not return a schedule ({res})")]
        | some sch => schedOracle h limit.toNat sch
      if !fails.isEmpty then
        -- known finding C15.createdMovedByUndoDel: the history is in the class, Go behaves exactly
        -- as the model of the unchanged code predicts, and the repaired model satisfies the oracle
        let repairedOK := match modelF with
          | .ok sch => (schedOracle h limit.toNat (sch.map (·.map (·.toNat)))).isEmpty
          | _ => false
        if which == some false && Spec.Sched.emptiesTreeAndAdds h && repairedOK then
          knownFinding "C15.createdMovedByUndoDel"
            (", ".intercalate (fails.map (·.1)) ++ s!" limit={limit} schedule={natLists (gotSch.getD [])}")
        else
          for (k, msg) in fails do oracleFail k msg
  | _ => parseError line

def intList (l : List Int) : String := if l.isEmpty then "-" else ",".intercalate (l.map toString)

/-- `gpp <cached> <deleted> <toDestroy> <numAdds> <numLeaves> <res> [<newCached> <createdIdxs>]`:
a direct call of `getPrevPos` (63-row coordinates) compared with the model -/
def handleGpp (line : String) (toks : List String) : M Unit := do
  match toks with
  | cachedTok :: delTok :: tdTok :: addsTok :: nlTok :: rest =>
    let some cached := parseU64s cachedTok | parseError line
    let some deleted := parseU64s delTok | parseError line
    let some td := parseU64s tdTok | parseError line
    let some adds := addsTok.toNat? | parseError line
    let some nl := parseU64 nlTok | parseError line
    let render := fun (r : List U64 × List Int) => s!"ok {u64s r.1} {intList r.2}"
    let expU := render (getPrevPos CSTTotalRows cached deleted td (BitVec.ofNat 16 adds) nl)
    let expF := render (getPrevPosFixed CSTTotalRows cached deleted td (BitVec.ofNat 16 adds) nl)
    count "gpp" line (!cached.isEmpty)
    let _ ← compareTwo "gpp" expU expF (" ".intercalate rest)
  | _ => parseError line

/-- `msched <summaries> <limit> <res> [<schedule>]`: ARBITRARY summaries `numAdds/targets;…`
(family `schedulemal`): model correspondence, plus the ordering theorem that holds for all
inputs (`Props.C15.order_ascending`) checked on what Go returned -/
def handleMsched (line : String) (toks : List String) : M Unit := do
  match toks with
  | sumTok :: limitTok :: res :: rest =>
    let parseSum := fun (s : String) => match s.splitOn "/" with
      | [a, tg] => do
        let a ← a.toNat?
        let tg ← parseU64s tg
        pure (tg, BitVec.ofNat 16 a)
      | _ => none
    let some sums := (sumTok.splitOn ";").mapM parseSum | parseError line
    let some limit := limitTok.toInt? | parseError line
    let trM := Tracker.ofBlocks sums
    let render := fun (o : Out (Tracker × List (List U64))) => match o with
      | .ok (_, sch) => s!"ok {u64Lists sch}"
      | o => o.tag
    let got := " ".intercalate (res :: rest)
    let gotSch : Option (List (List Nat)) := match res, rest with
      | "ok", [schTok] => parseNatLists schTok
      | _, _ => none
    count "msched" line ((gotSch.getD []).any (fun l => !l.isEmpty))
    let _ ← compareTwo "msched" (render (trM.bind (·.generateCachingSchedule limit)))
      (render (trM.bind (·.generateCachingScheduleFixed limit))) got
    match gotSch with
    | some sch =>
      let rec asc : List Nat → Bool
        | a :: b :: r => a ≤ b && asc (b :: r)
        | _ => true
      if !sch.all asc then oracleFail "msched:order" s!"a block's list is not in ascending order: {natLists sch}"
    | none => pure ()
  | _ => parseError line

end UtreexoVerif.Driver
