/-
  C17 (`alias` family): the harness reports, per (call, argument), whether the whole backing
  array of a caller-owned slice is the same after the call (`alias` lines), per (call, kind of
  earlier result) whether every result returned earlier is still the same (`later` lines),
  and the outcome of every call (`aliasinfo call`).  The oracle of C17 expects `same`
  everywhere and `ok` for every call on an honest block.
-/
import UtreexoVerif.Driver.State

namespace UtreexoVerif.Driver

/-- value of a `key=value` token among the trailing tokens -/
def kvGet (toks : List String) (key : String) : Option String :=
  toks.findSome? (fun t => if t.startsWith (key ++ "=") then some ((t.drop (key.length + 1)).toString) else none)

/-- `alias <api> <arg> same|changed:<detail> l=<layout> n=<len> c=<spare>` -/
def handleAlias (line : String) (toks : List String) : M Unit := do
  match toks with
  | api :: arg :: verdict :: rest =>
    let n := ((kvGet rest "n").bind String.toNat?).getD 0
    let layout := (kvGet rest "l").getD "?"
    count ("alias:" ++ api ++ ":" ++ layout) line (n > 0)
    if verdict == "same" then pure ()
    else oracleFail ("alias:" ++ api) s!"argument {arg} of {api} was modified by the call ({verdict}, layout {layout}, len {n})"
  | _ => parseError line

/-- `later <api-that-ran> <earlier-result-kind> same|changed:<detail>#<id> n=<count>` -/
def handleLater (line : String) (toks : List String) : M Unit := do
  match toks with
  | api :: kind :: verdict :: rest =>
    let n := ((kvGet rest "n").bind String.toNat?).getD 0
    count ("later:" ++ api) line (n > 0)
    if verdict == "same" then pure ()
    else oracleFail ("later:" ++ api) s!"a result returned earlier ({kind}) changed during {api} ({verdict})"
  | _ => parseError line

/-- `aliasinfo call <api> <outcome>` | `aliasinfo undostore <label> <nProof>` |
`aliasinfo partial <label> <nProof> <nGiven>` | `aliasinfo sametwice <api> 0|1` | `aliasinfo resync client 1` |
`aliasinfo abandoned session 1` (the harness stops a history after the first failed call / changed slice) -/
def handleAliasInfo (line : String) (toks : List String) : M Unit := do
  match toks with
  | ["call", api, outcome] =>
    count ("aliascall:" ++ api) line
    -- every block of the family is honest: each call must succeed
    if outcome == "ok" then pure () else mismatch ("aliascall:" ++ api) "ok" outcome
  | ["undostore", label, n] =>
    -- the allow-listed site `proof.Proof[i] = leaf.Hash` of MapPollard.undoDeletion ran over n proof hashes
    count "aliasinfo:undostore" line (n != "0" && (label.splitOn ":").getD 1 "" == "F")
  | ["partial", _label, _n, given] => count "aliasinfo:partialproof" line (given != "0")
  | ["sametwice", api, flag] => count ("aliasinfo:sametwice:" ++ api) line (flag == "1")
  | ["resync", _, _] => count "aliasinfo:resync" line
  | ["abandoned", _, _] => count "aliasinfo:abandoned" line
  | _ => parseError line

end UtreexoVerif.Driver
