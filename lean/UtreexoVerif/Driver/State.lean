/-
  Driver state, parsing and reporting helpers.
-/
import Std.Data.HashMap
import Std.Data.HashSet
import UtreexoVerif.Sha
import UtreexoVerif.Spec.Index
import UtreexoVerif.Model.Stump
import UtreexoVerif.Model.ProofPos

namespace UtreexoVerif.Driver
open UtreexoVerif Std

instance : Hasher H256 := ⟨sha512_256_pair, H256.zero⟩

abbrev F := Spec.Forest H256

/-- what the driver remembers about an applied block -/
structure BlockInfo where
  dels : List H256
  adds : List H256
  /-- leaf count before the block -/
  prevN : Nat
  /-- the block's additions overwrote at least one empty root (`UpdateData.ToDestroy ≠ ∅`) -/
  destroyed : Bool

structure St where
  forest : F := ⟨[]⟩
  stack : List F := []
  idx : Option (Spec.Index H256) := none
  /-- largest TreeRows reached since `new` (a map forest never shrinks its TotalRows) -/
  maxRows : Nat := 0
  lineNo : Nat := 0
  mismatches : Nat := 0
  oracleFails : Nat := 0
  counts : HashMap String Nat := {}
  nontrivial : HashMap String Nat := {}
  seen : HashSet UInt64 := {}
  distinct : HashMap String Nat := {}
  samples : HashMap String String := {}
  parseErrors : Nat := 0
  /-- (dels, adds) of every applied block, newest first (parallel to `stack`) -/
  blocks : List BlockInfo := []
  /-- the block removed by the latest `undo` line -/
  lastUndone : Option BlockInfo := none
  /-- the leaves a light client's cached proof is expected to hold (C07/C08) -/
  cache : List H256 := []
  /-- free-form per-family state (used by later families) -/
  extra : HashMap String String := {}

abbrev M := StateT St IO

def getIndex : M (Spec.Index H256) := do
  let s ← get
  match s.idx with
  | some i => pure i
  | none =>
    let i := s.forest.index
    set { s with idx := some i }
    pure i

def setForest (f : F) : M Unit := modify fun s => { s with forest := f, idx := none }

/-- count one evaluation of `kind`; `nontriv` says whether the case is non-trivial;
`line` is hashed to count distinct cases -/
def count (kind : String) (line : String) (nontriv : Bool := true) : M Unit :=
  modify fun s =>
    let h := hash line
    let isNew := !s.seen.contains h
    { s with counts := s.counts.insert kind (s.counts.getD kind 0 + 1),
             seen := if isNew then s.seen.insert h else s.seen,
             distinct := if isNew && nontriv then s.distinct.insert kind (s.distinct.getD kind 0 + 1) else s.distinct,
             nontrivial := if nontriv then s.nontrivial.insert kind (s.nontrivial.getD kind 0 + 1) else s.nontrivial,
             samples := if s.samples.contains kind || line.length > 400 then s.samples else s.samples.insert kind line }

def trunc (s : String) (n : Nat := 600) : String := if s.length > n then (s.take n).toString ++ "…" else s

def mismatch (kind : String) (expected got : String) : M Unit := do
  let s ← get
  if s.mismatches < 400 then
    IO.println s!"MISMATCH line={s.lineNo} kind={kind} expected={trunc expected} got={trunc got}"
  set { s with mismatches := s.mismatches + 1,
               counts := s.counts.insert ("mismatch:" ++ kind) (s.counts.getD ("mismatch:" ++ kind) 0 + 1) }

def oracleFail (kind : String) (what : String) : M Unit := do
  let s ← get
  if s.oracleFails < 400 then
    IO.println s!"ORACLE line={s.lineNo} kind={kind} {trunc what}"
  set { s with oracleFails := s.oracleFails + 1,
               counts := s.counts.insert ("oracle:" ++ kind) (s.counts.getD ("oracle:" ++ kind) 0 + 1) }

/-- an observation that deviates from the specification exactly as a *listed* known finding
predicts; bin/check accepts it only if the class is in /verif/known_findings.jsonl -/
def knownFinding (cls : String) (what : String) : M Unit := do
  let s ← get
  let k := "known:" ++ cls
  if s.counts.getD k 0 < 3 then IO.println s!"KNOWN line={s.lineNo} class={cls} {trunc what 300}"
  set { s with counts := s.counts.insert k (s.counts.getD k 0 + 1) }

def parseError (line : String) : M Unit := do
  let s ← get
  if s.parseErrors < 10 then IO.println s!"PARSEERROR line={s.lineNo} {trunc line 200}"
  set { s with parseErrors := s.parseErrors + 1 }

/-- compare, recording a mismatch -/
def expectEq (kind : String) (expected got : String) : M Unit :=
  if expected == got then pure () else mismatch kind expected got

-- ---------- parsing ----------

def parseHashes (s : String) : Option (List H256) :=
  if s == "-" then some [] else (s.splitOn ",").mapM H256.ofHex?

def parseU64 (s : String) : Option U64 := s.toNat?.map (BitVec.ofNat 64)
def parseU8 (s : String) : Option U8 := s.toNat?.map (BitVec.ofNat 8)

def parseU64s (s : String) : Option (List U64) :=
  if s == "-" then some [] else (s.splitOn ",").mapM parseU64

def parseNats (s : String) : Option (List Nat) :=
  if s == "-" then some [] else (s.splitOn ",").mapM String.toNat?

-- ---------- rendering (must match harness/common.go) ----------

def hx (h : H256) : String := if h == H256.zero then "z" else h.toHex
def hxs (l : List H256) : String := if l.isEmpty then "-" else ",".intercalate (l.map hx)
def u64s (l : List U64) : String := if l.isEmpty then "-" else ",".intercalate (l.map (fun x => toString x.toNat))
def nats (l : List Nat) : String := if l.isEmpty then "-" else ",".intercalate (l.map toString)
def b01 (b : Bool) : String := if b then "1" else "0"
def u (x : U64) : String := toString x.toNat
def u8 (x : U8) : String := toString x.toNat

end UtreexoVerif.Driver
