/-
  Property C14: `addproof`, `subset`, `missing`, `mapnodes`, `mapmissing` lines.

  Every line is (1) replayed on the transliterated model (`Model/ProofOps.lean`) and compared
  token for token with what the Go code returned, and (2) for the `honest` lines — inputs that
  come from the reference prover on a reachable state — judged by the property oracle, which
  is written from the property text on the specification forest (`Spec.Index.canon`,
  `proofPositions`, computable ancestors on (row, offset) positions), not from the code.
-/
import UtreexoVerif.Driver.State
import UtreexoVerif.Driver.Forest
import UtreexoVerif.Model.ProofOps

namespace UtreexoVerif.Driver
open UtreexoVerif Model Spec Std

/-- `ok <hashes> <targets> <proof>` -/
def renderTriple (o : Out (List H256 × List U64 × List H256)) : String :=
  match o with
  | .ok (hs, ts, ps) => s!"ok {hxs hs} {u64s ts} {hxs ps}"
  | o => o.tag

def strictlyAscending : List Nat → Bool
  | a :: b :: rest => a < b && strictlyAscending (b :: rest)
  | _ => true

def dedupH (l : List H256) : List H256 :=
  l.foldl (fun acc x => if acc.contains x then acc else acc ++ [x]) []

/-- the computable positions of the specification: every strict ancestor of a target -/
def specComputable (I : Spec.Index H256) (targets : List Pos) : List Pos :=
  Forest.sortDedup (targets.flatMap (fun t => (Forest.pathUp I.n (I.rows + 1) t).drop 1))

/-- positions of the given live leaves; `none` if one is not live or is not where the harness
says it is -/
def leafPositions (I : Spec.Index H256) (ts : List U64) (hs : List H256) : Option (List Pos) :=
  if ts.length != hs.length then none
  else do
    let ps ← hs.mapM I.posOf
    if ps.map (enc I.rows) == ts.map (·.toNat) then some ps else none

/-- count the outcome of a call that lies outside the modelled domain -/
def countOutside (kind line : String) (res : List String) : M Unit :=
  count ("dist:" ++ kind ++ ":unmodelled:" ++ res.headD "?") line

-- ------------------------------------------------------------------ AddProof

/-- Oracle for AddProof (property text: "combining two valid proofs of the same state gives the
canonical proof of the union of their targets").  The returned targets are required to be
strictly ascending by position (that is the order the code produces: it merges the sorted
target lists), the hashes parallel to them, and the proof hashes the canonical ones. -/
def oracleAddProof (I : Spec.Index H256) (hA hB : List H256) (res : List String) : Option String :=
  let union := dedupH (hA ++ hB)
  match res with
  | ["ok", hs, ts, ps] =>
    match parseHashes hs, parseU64s ts, parseHashes ps with
    | some hs, some ts, some ps =>
      if hs.length != ts.length then some s!"{hs.length} hashes for {ts.length} targets"
      else if !strictlyAscending (ts.map (·.toNat)) then some "targets not strictly ascending"
      else if hs.length != union.length then some s!"{hs.length} targets, union has {union.length} leaves"
      else if !(union.all hs.contains) then some "a leaf of the union is missing"
      else
        let bad := (ts.zip hs).filter (fun (t, h) => (I.posOf h).map (enc I.rows) != some t.toNat)
        if !bad.isEmpty then some s!"leaf {hx bad.head!.2} reported at position {bad.head!.1.toNat}"
        else match I.canon hs with
          | some (_, cps) => if cps == ps then none else some s!"proof hashes {hxs ps} are not the canonical {hxs cps}"
          | none => some "union not provable in the specification (harness/driver drift)"
    | _, _, _ => some "unparsable result"
  | r => some ("result " ++ " ".intercalate r)

def handleAddProof (line : String) (toks : List String) : M Unit := do
  match toks with
  | tag :: n :: tA :: pA :: hA :: tB :: pB :: hB :: res =>
    match parseU64 n, parseU64s tA, parseHashes pA, parseHashes hA, parseU64s tB, parseHashes pB, parseHashes hB with
    | some n, some tA, some pA, some hA, some tB, some pB, some hB =>
      let kind := if tag == "honest" then "addproof" else "addproof:" ++ tag
      if tag == "honest" then
        let I ← getIndex
        count "dist:addproof:shape" (s!"{tA.length} {tB.length} {(tA.filter tB.contains).length}") true
        if n.toNat != I.n then oracleFail "addproof" s!"numLeaves {n.toNat} but the specification has {I.n}"
        else match leafPositions I tA hA, leafPositions I tB hB with
          | some _, some _ =>
            match oracleAddProof I hA hB res with
            | none => pure ()
            | some why => oracleFail "addproof" why
          | _, _ => oracleFail "addproof" "input targets are not the positions of the given live leaves (harness/driver drift)"
      if !addProofExact tA hA tB hB then countOutside "addproof" line res
      else
        count kind line (tA.length + tB.length > 0)
        expectEq kind (renderTriple (addProof n tA pA hA tB pB hB)) (" ".intercalate res)
        if pA.length != (ProofPositions (sortU64 tA) n (TreeRows n)).1.length
            || pB.length != (ProofPositions (sortU64 tB) n (TreeRows n)).1.length then
          count ("dist:addproof:prooflen:" ++ res.headD "?") line
    | _, _, _, _, _, _, _ => parseError line
  | _ => parseError line

-- ------------------------------------------------------------------ GetProofSubset

/-- Oracle for GetProofSubset (property text: "restricting a valid proof to a subset of its
targets gives the canonical proof of that subset with hashes and targets in the requested
order, and fails with an error exactly when a requested target is not covered"). -/
def oracleSubset (I : Spec.Index H256) (ts : List U64) (hs : List H256) (wants : List U64)
    (res : List String) : Option String :=
  let covered := wants.all ts.contains
  if !covered then
    if res == ["err"] then none else some ("a wanted target is not covered but the result is " ++ trunc (" ".intercalate res) 80)
  else
    -- the leaf the caller pairs with each wanted target
    let wantLeaves := wants.filterMap (fun w => ((ts.zip hs).find? (fun x => x.1 == w)).map (·.2))
    match res with
    | ["ok", rhs, rts, rps] =>
      match parseHashes rhs, parseU64s rts, parseHashes rps with
      | some rhs, some rts, some rps =>
        if rts != wants then some s!"targets {u64s rts} are not the wanted {u64s wants}"
        else if rhs != wantLeaves then some s!"hashes are not those of the wanted targets in the requested order"
        else match I.canon wantLeaves with
          | some (cts, cps) =>
            if cts.map (enc I.rows) != wants.map (·.toNat) then some "wanted targets are not the positions of their leaves (harness/driver drift)"
            else if cps == rps then none else some s!"proof hashes {hxs rps} are not the canonical {hxs cps}"
          | none => some "wanted leaves not provable in the specification (harness/driver drift)"
      | _, _, _ => some "unparsable result"
    | r => some ("every wanted target is covered but the result is " ++ " ".intercalate r)

def hasDup (l : List U64) : Bool :=
  match l with
  | [] => false
  | x :: xs => xs.contains x || hasDup xs

def handleSubset (line : String) (toks : List String) : M Unit := do
  match toks with
  | tag :: n :: ts :: pr :: hs :: wants :: res =>
    match parseU64 n, parseU64s ts, parseHashes pr, parseHashes hs, parseU64s wants with
    | some n, some ts, some pr, some hs, some wants =>
      let kind := if tag == "honest" then "subset" else "subset:" ++ tag
      if tag == "honest" then
        let I ← getIndex
        count "dist:subset:shape" (s!"{ts.length} {wants.length} {res.headD "?"}") true
        match leafPositions I ts hs with
        | some _ =>
          match oracleSubset I ts hs wants res with
          | none => pure ()
          | some why => oracleFail "subset" why
        | none => oracleFail "subset" "input targets are not the positions of the given live leaves (harness/driver drift)"
      if hs.length != ts.length then countOutside "subset" line res
      else
        count kind line (res.head? == some "ok" && !wants.isEmpty)
        expectEq kind (renderTriple (getProofSubset n ts pr hs wants)) (" ".intercalate res)
        if tag != "honest" then count ("dist:" ++ kind ++ ":" ++ res.headD "?") line
        if hasDup wants && wants.all ts.contains && !hasDup ts then count ("dist:subset:dupwants:" ++ res.headD "?") line
    | _, _, _, _, _ => parseError line
  | _ => parseError line

-- ------------------------------------------------------------------ GetMissingPositions

/-- Oracle for GetMissingPositions, as the list of encoded positions (ascending).
Form 1 (the reading fixed for this property): canonical proof positions of (desired \ held)
minus (held targets ∪ their proof positions ∪ their computable ancestors).
Form 2 (the same sentence read on the union): canonical proof positions of (held ∪ desired)
that are not proof positions of held.  Both are evaluated and must agree. -/
def oracleMissing (I : Spec.Index H256) (held desired : List Pos) : List Nat × List Nat :=
  let extra := desired.filter (fun p => !held.contains p)
  let heldPP := I.proofPositions held
  let have_ := held ++ heldPP ++ specComputable I held
  let f1 := (I.proofPositions extra).filter (fun p => !have_.contains p)
  let f2 := (I.proofPositions (held ++ desired)).filter (fun p => !heldPP.contains p)
  (f1.map (enc I.rows), f2.map (enc I.rows))

def handleMissing (line : String) (toks : List String) : M Unit := do
  match toks with
  | tag :: n :: hT :: hH :: hP :: dT :: dH :: res =>
    match parseU64 n, parseU64s hT, parseHashes hH, parseHashes hP, parseU64s dT, parseHashes dH with
    | some n, some hT, some hH, some _hP, some dT, some dH =>
      let kind := if tag == "honest" then "missing" else "missing:" ++ tag
      if tag == "honest" then
        let I ← getIndex
        match leafPositions I hT hH, leafPositions I dT dH with
        | some held, some desired =>
          let (f1, f2) := oracleMissing I held desired
          if f1 != f2 then oracleFail "missing" s!"the two readings of the oracle disagree: {nats f1} vs {nats f2} (oracle defect)"
          match res with
          | ["ok", ms, fetched, uT, uH, uP, v] =>
            match parseU64s ms, parseHashes fetched, parseU64s uT, parseHashes uH, parseHashes uP with
            | some ms, some fetched, some uT, some uH, some uP =>
              let msN := ms.map (·.toNat)
              count "dist:missing:shape" (s!"{hT.length} {dT.length} {ms.length}") true
              if !strictlyAscending msN then oracleFail "missing" s!"positions {nats msN} not ascending"
              else if msN != f1 then oracleFail "missing" s!"missing positions {nats msN}, canonical positions that cannot be taken or computed from what is held: {nats f1}"
              else
                -- the hashes the harness fetched are the true ones
                let truth := msN.map (fun p => (I.nodeAtEnc p).getD H256.zero)
                if truth != fetched then mismatch "missing:fetch" (hxs truth) (hxs fetched)
                -- completion: the canonical proof of the union (ascending) and Verify accepts it
                match I.canon uH with
                | some (cts, cps) =>
                  if cts.map (enc I.rows) != uT.map (·.toNat) then oracleFail "missing" "union targets are not the positions of the union leaves"
                  else if dedupH (hH ++ dH) |>.any (fun h => !uH.contains h) then oracleFail "missing" "union misses a leaf"
                  else if v == "v=incomplete" then oracleFail "missing" "held proof plus the hashes at the reported positions do not cover the proof positions of the union"
                  else if cps != uP then oracleFail "missing" s!"completed proof {hxs uP} is not the canonical proof {hxs cps} of the union"
                  else if v != "v=ok" then oracleFail "missing" s!"Verify of the completed proof: {v}"
                  else
                    -- the model of Verify agrees
                    let mv := (verify n I.roots uH uT uP).tag
                    if uT.isEmpty then pure () else expectEq "missing:verify" mv "ok"
                | none => oracleFail "missing" "union not provable in the specification (harness/driver drift)"
            | _, _, _, _, _ => parseError line
          | r => oracleFail "missing" ("result " ++ trunc (" ".intercalate r) 80)
        | _, _ => oracleFail "missing" "input targets are not the positions of the given live leaves (harness/driver drift)"
      let modelRes := "ok " ++ u64s (getMissingPositions n hT dT)
      let gotRes := " ".intercalate (res.take 2)
      count kind line (gotRes != "ok -")
      expectEq kind modelRes gotRes
    | _, _, _, _, _, _ => parseError line
  | _ => parseError line

-- ------------------------------------------------------------------ MapPollard

def handleMapNodes (line : String) (toks : List String) : M Unit := do
  match toks with
  | [label, _n, _rows, _ps, _hs] =>
    modify fun s => { s with extra := s.extra.insert ("mapnodes:" ++ label) line }
    count "mapnodes" line
  | _ => parseError line

structure NodeDump where
  n : U64
  totalRows : U8
  byPos : HashMap Nat H256

def parseNodeDump (line : String) : Option NodeDump :=
  match line.splitOn " " with
  | ["mapnodes", _label, n, rows, ps, hs] =>
    match parseU64 n, parseU8 rows, parseNats ps, parseHashes hs with
    | some n, some rows, some ps, some hs =>
      if ps.length != hs.length then none
      else some { n := n, totalRows := rows, byPos := (ps.zip hs).foldl (fun m (p, h) => m.insert p h) {} }
    | _, _, _, _ => none
  | _ => none

/-- the latest `mapnodes` line of every label, parsed once (hash of the line, dump): the dumps of
the many-tree states have thousands of entries and serve many `mapmissing` lines -/
initialize nodeDumpCache : IO.Ref (HashMap String (UInt64 × NodeDump)) ← IO.mkRef {}

def cachedNodeDump (label : String) : M (Option NodeDump) := do
  let s ← get
  match s.extra.get? ("mapnodes:" ++ label) with
  | none => pure none
  | some l =>
    let c ← (nodeDumpCache.get : IO _)
    match c.get? label with
    | some (h, nd) => if h == hash l then return some nd
    | none => pure ()
    match parseNodeDump l with
    | some nd =>
      (nodeDumpCache.modify fun c => c.insert label (hash l, nd) : IO Unit)
      pure (some nd)
    | none => pure none

/-- can the hash at `p` be computed from the stored nodes below it (both children stored or,
recursively, computable)?  Row-0 positions never are. -/
def computableAt (stored : Pos → Bool) : Nat → Nat → Bool
  | 0, _ => false
  | r + 1, o =>
    (stored (r, 2 * o) || computableAt stored r (2 * o)) &&
    (stored (r, 2 * o + 1) || computableAt stored r (2 * o + 1))

def computableFrom (stored : Pos → Bool) (p : Pos) : Bool := computableAt stored p.1 p.2

def handleMapMissing (line : String) (toks : List String) : M Unit := do
  match toks with
  | tag :: label :: ts :: lh :: res =>
    match ← cachedNodeDump label, parseU64s ts, parseHashes lh with
    | some nd, some ts, some lh =>
      let kind := if tag == "honest" then "mapmissing" else "mapmissing:" ++ tag
      let has := fun (p : U64) => nd.byPos.contains p.toNat
      let get := fun (p : U64) => nd.byPos.get? p.toNat
      let mm := mapGetMissingPositions nd.n nd.totalRows has ts
      count kind line (!mm.isEmpty)
      match res with
      | ["ok", ms, fetched, v] =>
        match parseU64s ms, parseHashes fetched with
        | some ms, some fetched =>
          if tag == "honest" then
            let I ← getIndex
            if nd.n.toNat != I.n then oracleFail "mapmissing" s!"instance has {nd.n.toNat} leaves, specification {I.n}"
            else match leafPositions I ts lh with
              | some tpos =>
                -- canonical proof positions of the targets that the instance does not store
                let stored := fun (p : Pos) => nd.byPos.contains (enc nd.totalRows.toNat p)
                let exp := ((I.proofPositions tpos).filter (fun p => !stored p)).map (enc I.rows)
                let msN := ms.map (·.toNat)
                count "dist:mapmissing:shape" (s!"{ts.length} {ms.length} {(I.proofPositions tpos).length}") true
                if msN != exp then oracleFail "mapmissing" s!"missing positions {nats msN}, canonical proof positions not stored: {nats exp}"
                else
                  -- Known finding C14.mapmissing.computable: "not stored" is more than the property's
                  -- "cannot be taken or computed from what is already held" — a reported position whose
                  -- hash is computable from stored nodes (both children stored or computable) is an
                  -- over-report.  Attributed to that class only; any other deviation is a violation.
                  let over := ((I.proofPositions tpos).filter (fun p => !stored p)).filter (computableFrom stored)
                  if !over.isEmpty then
                    knownFinding "C14.mapmissing.computable"
                      s!"GetMissingPositions({u64s ts}) reports {nats (over.map (enc I.rows))}, computable from stored nodes ({nd.n.toNat} leaves)"
                  let truth := msN.map (fun p => (I.nodeAtEnc p).getD H256.zero)
                  if truth != fetched then mismatch "mapmissing:fetch" (hxs truth) (hxs fetched)
                  if v != "v=ok" then oracleFail "mapmissing" s!"VerifyPartialProof with the true hashes at the missing positions: {v}"
              | none => oracleFail "mapmissing" "targets are not the positions of the given live leaves (harness/driver drift)"
          expectEq kind ("ok " ++ u64s mm) (" ".intercalate (res.take 2))
          -- VerifyPartialProof on the model, with the hashes the harness supplied
          let mv := (mapVerifyPartialProof nd.n nd.totalRows get ts lh fetched).tag
          expectEq (kind ++ ":verifypartial") ("v=" ++ mv) v
        | _, _ => parseError line
      | _ =>
        if tag == "honest" then oracleFail "mapmissing" ("result " ++ trunc (" ".intercalate res) 80)
        expectEq kind ("ok " ++ u64s mm) (" ".intercalate (res.take 2))
    | _, _, _ => parseError line
  | _ => parseError line

end UtreexoVerif.Driver
