/-
  Main loop of the driver.
-/
import UtreexoVerif.Driver.Arith
import UtreexoVerif.Driver.Forest
import UtreexoVerif.Driver.Schedule
import UtreexoVerif.Driver.Serial
import UtreexoVerif.Driver.Partial
import UtreexoVerif.Driver.ProofOps
import UtreexoVerif.Driver.ProofUpdate
import UtreexoVerif.Driver.Alias
import UtreexoVerif.Driver.Conc
import UtreexoVerif.Driver.ConcLin
import UtreexoVerif.Driver.PollardHeap
import UtreexoVerif.Driver.Sparse

namespace UtreexoVerif.Driver
open Std

def handleLine (line : String) : M Unit := do
  modify fun s => { s with lineNo := s.lineNo + 1 }
  if line.isEmpty || line.startsWith "#" then return
  phHook line (line.splitOn " ")
  match line.splitOn " " with
  | "fn" :: rest => handleFn line rest
  | ["new"] => handleNew
  | "block" :: rest => handleBlock line rest
  | ["undo"] => handleUndo line
  | "obs" :: rest => handleObs line rest
  | "stump" :: rest => handleStump line rest
  | "cupdate" :: rest => handleCUpdate line rest
  | "cundo" :: rest => handleCUndo line rest
  | ["cresync"] => count "cresync" line
  | "pm" :: rest => handlePM line rest
  | "pd" :: rest => handlePD line rest
  | "pupdate" :: rest => handlePUpdate line rest
  | "pundo" :: rest => handlePUndo line rest
  | "addproof" :: rest => handleAddProof line rest
  | "subset" :: rest => handleSubset line rest
  | "missing" :: rest => handleMissing line rest
  | "mapnodes" :: rest => handleMapNodes line rest
  | "mapmissing" :: rest => handleMapMissing line rest
  | "alias" :: rest => handleAlias line rest
  | "later" :: rest => handleLater line rest
  | "aliasinfo" :: rest => handleAliasInfo line rest
  | "sttl" :: rest => handleSttl line rest
  | "sched" :: rest => handleSched line rest
  | "gpp" :: rest => handleGpp line rest
  | "msched" :: rest => handleMsched line rest
  | "ser" :: rest => handleSer line rest
  | ["enc", tag, res] => count ("enc:" ++ tag) line (res == "accepted")
  | "session" :: _ => pure ()   -- start-of-scenario marker (bin/check cuts replay excerpts there)
  | "conc" :: rest => handleConc line rest
  | "concw" :: rest => handleConcW line rest
  | "concstress" :: rest => handleConcStress line rest
  | ["conctable"] => handleConcTable line
  | "conclin" :: rest => handleConcLin line rest
  | "ph" :: rest => handlePH line rest
  | "sforest" :: rest => handleSForest line rest
  | "sverify" :: rest => handleSVerify line rest
  | "sexpect" :: rest => handleSExpect line rest
  | _ => parseError line

partial def loop (h : IO.FS.Stream) : M Unit := do
  let line ← h.getLine
  if line.isEmpty then return
  handleLine (line.trimAsciiEnd).toString
  loop h

def jsonMap (m : HashMap String Nat) : String :=
  let items := m.toList.map (fun (k, v) => s!"\"{k}\": {v}")
  "{" ++ ", ".intercalate (items.mergeSort) ++ "}"

def jsonEsc (s : String) : String :=
  s.foldl (fun acc c => if c == '"' then acc ++ "\\\"" else if c == '\\' then acc ++ "\\\\" else acc.push c) ""

def run (_args : List String) : IO UInt32 := do
  let stdin ← IO.getStdin
  let ((), s) ← (loop stdin).run {}
  let samples := s.samples.toList.map (fun (k, v) => s!"\"{k}\": \"{jsonEsc (trunc v 300)}\"")
  IO.println ("SUMMARY {\"lines\": " ++ toString s.lineNo ++ ", \"mismatches\": " ++ toString s.mismatches ++
    ", \"oracle_fails\": " ++ toString s.oracleFails ++ ", \"parse_errors\": " ++ toString s.parseErrors ++
    ", \"counts\": " ++ jsonMap s.counts ++ ", \"nontrivial\": " ++ jsonMap s.nontrivial ++
    ", \"distinct\": " ++ jsonMap s.distinct ++ ", \"samples\": {" ++ ", ".intercalate samples.mergeSort ++ "}}")
  return (if s.mismatches + s.oracleFails + s.parseErrors > 0 then 1 else 0)

end UtreexoVerif.Driver
