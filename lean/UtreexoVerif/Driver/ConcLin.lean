/-
  Family `conclin` (property C12): lines written by harness/fam_conc2.go.

    conclin pair <X> <Y> <cfg> <k> <K> <site> <parked> <early|blocked> <conc> <xy> <yx>
    conclin q    <X> <cfg> <k> <K> <site> <query> <args> <early|blocked> <result> <pre> <post>
    conclin qw   <X> <cfg> <k> <K> <site> <parked> <outcome of X on A> <outcome of X alone>
    conclin info … / conclin dump …     (descriptions for the reader of a replay)

  X was parked at its k-th access to the instrumented maps `Nodes` / `CachedLeaves` (or at a
  verifPoint site) while Y — another state-changing operation, or a read-only query — was
  started on the same instance.  An outcome is
  `<result of X>/<result of Y>/<NumLeaves>/<TotalRows>/<#Nodes>/<#CachedLeaves>/<digest>/<roots>`.

  ORACLE (from the property text: every call takes effect atomically at some instant during
  the call; no query observes a half-applied block).  Both calls overlap in time, so either
  order of the two instants is allowed and nothing else is:
    * pair: the concurrent outcome (final state and both return values) equals the outcome of
      X;Y or of Y;X on twin instances (`conclin:<X>-<Y>`);
    * query: the result equals the twin's answer before X or after X (`conclin:<X>-q.<query>`),
      and X itself behaves as it does alone (`conclin:<X>-queries`);
    * nothing hangs, and nothing panics unless the matching sequential order panics as well
      (`conclin:crash`).
  The order that was matched is counted in `dist:conclin:<X>-<Y>:<xy|yx|both>`.

  MODEL (prediction from the regenerated lock table `Gen/LockTable.lean`, the same reading as
  in `Driver/Conc.lean`): when the table says that X takes the WRITE lock in the regular
  pattern (single acquire, unlock deferred at once, nothing but reads of immutable fields
  before it), then every map access of X happens under that lock, hence a Y that takes a lock
  stays BLOCKED while X is parked (`conclin:sched`) and the outcome is that of X;Y
  (`conclin:order`).  A deviation is a MISMATCH.
-/
import UtreexoVerif.Driver.Conc

namespace UtreexoVerif.Driver
open UtreexoVerif Model.Lock Gen.LockTable

/-- the table says: every access of method `x` to a mutable field happens under the write lock
taken by `x` itself -/
def wholeBodyUnderW (x : String) : Bool :=
  match methodOfString? x with
  | none => false
  | some m =>
    let i := table m
    let mu := mutF table allMethods
    i.lock == .w && i.regular && i.preCalls.isEmpty && (i.preReads ++ i.preWrites).all (fun f => !mu f)

def takesLock (y : String) : Bool :=
  match methodOfString? y with
  | none => false
  | some m => (table m).lock != .none

def bumpCount (kind : String) : M Unit :=
  modify fun s => { s with counts := s.counts.insert kind (s.counts.getD kind 0 + 1) }

/-- result of X, result of Y of an outcome token -/
def outcomeResults (o : String) : String × String :=
  match o.splitOn "/" with
  | x :: y :: _ => (x, y)
  | _ => ("?", "?")

def handleConcLinPair (line : String) (toks : List String) : M Unit := do
  match toks with
  | [x, y, _cfg, k, _K, site, parked, ysched, conc, xy, yx] =>
    let kind := s!"conclin:{x}-{y}"
    count kind line (xy != yx)
    let (cx, cy) := outcomeResults conc
    let hang := [conc, xy, yx].any (fun o => let (a, b) := outcomeResults o; a == "hang" || b == "hang")
    if hang then
      oracleFail "conclin:crash" s!"{x} parked at access {k} ({site}) with {y} started: a call did not return (deadlock watchdog): concurrent={conc} X;Y={xy} Y;X={yx}"
    else if conc == "skipped" || cx == "skipped" || cy == "skipped" then pure ()
    else
      -- X returned before its k-th access (a failing Read stops at the first bad entry of a map
      -- iteration, so its number of accesses varies): Y then simply ran after X
      if parked != "1" then bumpCount "dist:conclin:notparked"
      -- oracle: linearizable
      let m := if conc == xy && conc == yx then "both" else if conc == xy then "xy" else if conc == yx then "yx" else "none"
      bumpCount s!"dist:conclin:{x}-{y}:{m}"
      if m == "none" then
        oracleFail kind s!"{x} parked at its access {k} ({site}), {y} {ysched}: the outcome (result of {x}/result of {y}/NumLeaves/TotalRows/#Nodes/#CachedLeaves/digest/roots) {conc} is neither that of {x};{y} = {xy} nor that of {y};{x} = {yx}"
        if cx == "panic" || cy == "panic" then
          oracleFail "conclin:crash" s!"{x} parked at access {k} ({site}) with {y}: panic ({conc}) that neither sequential order shows"
      -- model prediction from the lock table
      if parked == "1" && wholeBodyUnderW x && takesLock y then
        expectEq "conclin:sched" s!"{y} blocked while {x} is parked at {site}" s!"{y} {ysched} while {x} is parked at {site}"
        if ysched == "blocked" then expectEq "conclin:order" s!"outcome {xy} (that of {x};{y})" s!"outcome {conc} (that of {x};{y})"
  | _ => parseError line

def handleConcLinQ (line : String) (toks : List String) : M Unit := do
  match toks with
  | [x, _cfg, k, _K, site, query, args, sched, res, pre, post] =>
    let kind := s!"conclin:{x}-q.{query}"
    count kind line (pre != post)
    if res == "hang" || pre == "hang" || post == "hang" then
      oracleFail "conclin:crash" s!"{query}({args}) while {x} was parked at access {k} ({site}): result={res} pre={pre} post={post}"
    else if res == "skipped" || pre == "skipped" || post == "skipped" then pure ()
    else
      let m := if res == pre && res == post then "both" else if res == pre then "pre" else if res == post then "post" else "none"
      bumpCount s!"dist:conclin:{x}-query:{m}"
      if m == "none" then
        oracleFail kind s!"{query}({args}) = {res} started while {x} was parked at its access {k} ({site}), {sched}: neither the answer before {x} ({pre}) nor after it ({post})"
        if res == "panic" then
          oracleFail "conclin:crash" s!"{query}({args}) panicked while {x} was parked at access {k} ({site})"
      if wholeBodyUnderW x && takesLock query then
        expectEq "conclin:sched" s!"{query} blocked while {x} is parked at {site}" s!"{query} {sched} while {x} is parked at {site}"
        if sched == "blocked" then expectEq "conclin:order" s!"{query}({args}) = {post}" s!"{query}({args}) = {res}"
  | _ => parseError line

def handleConcLinQW (line : String) (toks : List String) : M Unit := do
  match toks with
  | [x, _cfg, k, _K, site, parked, conc, alone] =>
    let kind := s!"conclin:{x}-queries"
    count kind line
    let (cx, _) := outcomeResults conc
    let (ax, _) := outcomeResults alone
    if cx == "hang" || ax == "hang" || conc.endsWith "/hang" || alone.endsWith "/hang" then
      oracleFail "conclin:crash" s!"{x} parked at access {k} ({site}) with the queries started: a call did not return: {conc} (alone: {alone})"
    else if cx == "skipped" then pure ()
    else
      if parked != "1" then bumpCount "dist:conclin:notparked"
      if conc != alone then
        oracleFail kind s!"{x} parked at access {k} ({site}) while read-only queries ran: outcome {conc} differs from the outcome of {x} alone {alone}"
  | _ => parseError line

def handleConcLin (line : String) (toks : List String) : M Unit := do
  match toks with
  | "pair" :: rest => handleConcLinPair line rest
  | "q" :: rest => handleConcLinQ line rest
  | "qw" :: rest => handleConcLinQW line rest
  | "info" :: _ => bumpCount "conclininfo"
  | "dump" :: _ => bumpCount "conclindump"
  | _ => parseError line

end UtreexoVerif.Driver
