/-
  Family `conclin` (property C12): lines written by harness/fam_conc2.go.

    conclin pair <X> <Y> <cfg> <k> <K> <site> <parked> <early|blocked> <conc> <xy> <yx>
    conclin q    <X> <cfg> <k> <K> <site> <query> <args> <early|blocked> <result> <pre> <post>
    conclin qw   <X> <cfg> <k> <K> <site> <parked> <outcome of X on A> <outcome of X alone>
    conclin info … / conclin dump …     (descriptions for the reader of a replay)
    conclin rd   <X> <Y> <cfg> <numLeaves> <k> <K> <site> <parked> <early|blocked> <result of Y> <result of Y alone>
                 <final state> <twin's state after Y> <answer of X> <twin's answer before Y> <twin's answer after Y>
                 (harness/fam_conc3.go, family `conclinrd`: a READER X parked at its k-th access, see `handleConcLinRd`)

  X was parked at its k-th access to the instrumented maps `Nodes` / `CachedLeaves` (or at a
  verifPoint site) while Y — another state-changing operation, or a read-only query — was
  started on the same instance.  An outcome is
  `<result of X>/<result of Y>/<NumLeaves>/<TotalRows>/<#Nodes>/<#CachedLeaves>/<digest>/<roots>`.

  ORACLE (from the property text: every call takes effect atomically at some instant during
  the call; no query observes a half-applied block).  Both calls overlap in time, so either
  order of the two instants is allowed and nothing else is:
    * pair: the concurrent outcome (final state and both return values) equals the outcome of
      X;Y or of Y;X on twin instances (`conclin:<X>-<Y>`);
    * query: the result equals the twin's answer before X or after X (`conclin:<X>-q.<query>`),
      and X itself behaves as it does alone (`conclin:<X>-queries`);
    * nothing hangs, and nothing panics unless the matching sequential order panics as well
      (`conclin:crash`).
  The order that was matched is counted in `dist:conclin:<X>-<Y>:<xy|yx|both>`.

  MODEL (prediction from the regenerated lock table `Gen/LockTable.lean`, the same reading as
  in `Driver/Conc.lean`): when the table says that X takes the WRITE lock in the regular
  pattern (single acquire, unlock deferred at once, nothing but reads of immutable fields
  before it), then every map access of X happens under that lock, hence a Y that takes a lock
  stays BLOCKED while X is parked (`conclin:sched`) and the outcome is that of X;Y
  (`conclin:order`).  A deviation is a MISMATCH.
-/
import UtreexoVerif.Driver.Conc

namespace UtreexoVerif.Driver
open UtreexoVerif Model.Lock Gen.LockTable

/-- the table says: every access of method `x` to a mutable field happens under the write lock
taken by `x` itself -/
def wholeBodyUnderW (x : String) : Bool :=
  match methodOfString? x with
  | none => false
  | some m =>
    let i := table m
    let mu := mutF table allMethods
    i.lock == .w && i.regular && i.preCalls.isEmpty && (i.preReads ++ i.preWrites).all (fun f => !mu f)

def takesLock (y : String) : Bool :=
  match methodOfString? y with
  | none => false
  | some m => (table m).lock != .none

def bumpCount (kind : String) : M Unit :=
  modify fun s => { s with counts := s.counts.insert kind (s.counts.getD kind 0 + 1) }

/-- result of X, result of Y of an outcome token -/
def outcomeResults (o : String) : String × String :=
  match o.splitOn "/" with
  | x :: y :: _ => (x, y)
  | _ => ("?", "?")

def handleConcLinPair (line : String) (toks : List String) : M Unit := do
  match toks with
  | [x, y, _cfg, k, _K, site, parked, ysched, conc, xy, yx] =>
    let kind := s!"conclin:{x}-{y}"
    count kind line (xy != yx)
    let (cx, cy) := outcomeResults conc
    let hang := [conc, xy, yx].any (fun o => let (a, b) := outcomeResults o; a == "hang" || b == "hang")
    if hang then
      oracleFail "conclin:crash" s!"{x} parked at access {k} ({site}) with {y} started: a call did not return (deadlock watchdog): concurrent={conc} X;Y={xy} Y;X={yx}"
    else if conc == "skipped" || cx == "skipped" || cy == "skipped" then pure ()
    else
      -- X returned before its k-th access (a failing Read stops at the first bad entry of a map
      -- iteration, so its number of accesses varies): Y then simply ran after X
      if parked != "1" then bumpCount "dist:conclin:notparked"
      -- oracle: linearizable
      let m := if conc == xy && conc == yx then "both" else if conc == xy then "xy" else if conc == yx then "yx" else "none"
      bumpCount s!"dist:conclin:{x}-{y}:{m}"
      if m == "none" then
        oracleFail kind s!"{x} parked at its access {k} ({site}), {y} {ysched}: the outcome (result of {x}/result of {y}/NumLeaves/TotalRows/#Nodes/#CachedLeaves/digest/roots) {conc} is neither that of {x};{y} = {xy} nor that of {y};{x} = {yx}"
        if cx == "panic" || cy == "panic" then
          oracleFail "conclin:crash" s!"{x} parked at access {k} ({site}) with {y}: panic ({conc}) that neither sequential order shows"
      -- model prediction from the lock table
      if parked == "1" && wholeBodyUnderW x && takesLock y then
        expectEq "conclin:sched" s!"{y} blocked while {x} is parked at {site}" s!"{y} {ysched} while {x} is parked at {site}"
        if ysched == "blocked" then expectEq "conclin:order" s!"outcome {xy} (that of {x};{y})" s!"outcome {conc} (that of {x};{y})"
  | _ => parseError line

def handleConcLinQ (line : String) (toks : List String) : M Unit := do
  match toks with
  | [x, _cfg, k, _K, site, query, args, sched, res, pre, post] =>
    let kind := s!"conclin:{x}-q.{query}"
    count kind line (pre != post)
    if res == "hang" || pre == "hang" || post == "hang" then
      oracleFail "conclin:crash" s!"{query}({args}) while {x} was parked at access {k} ({site}): result={res} pre={pre} post={post}"
    else if res == "skipped" || pre == "skipped" || post == "skipped" then pure ()
    else
      let m := if res == pre && res == post then "both" else if res == pre then "pre" else if res == post then "post" else "none"
      bumpCount s!"dist:conclin:{x}-query:{m}"
      if m == "none" then
        oracleFail kind s!"{query}({args}) = {res} started while {x} was parked at its access {k} ({site}), {sched}: neither the answer before {x} ({pre}) nor after it ({post})"
        if res == "panic" then
          oracleFail "conclin:crash" s!"{query}({args}) panicked while {x} was parked at access {k} ({site})"
      if wholeBodyUnderW x && takesLock query then
        expectEq "conclin:sched" s!"{query} blocked while {x} is parked at {site}" s!"{query} {sched} while {x} is parked at {site}"
        if sched == "blocked" then expectEq "conclin:order" s!"{query}({args}) = {post}" s!"{query}({args}) = {res}"
  | _ => parseError line

def handleConcLinQW (line : String) (toks : List String) : M Unit := do
  match toks with
  | [x, _cfg, k, _K, site, parked, conc, alone] =>
    let kind := s!"conclin:{x}-queries"
    count kind line
    let (cx, _) := outcomeResults conc
    let (ax, _) := outcomeResults alone
    if cx == "hang" || ax == "hang" || conc.endsWith "/hang" || alone.endsWith "/hang" then
      oracleFail "conclin:crash" s!"{x} parked at access {k} ({site}) with the queries started: a call did not return: {conc} (alone: {alone})"
    else if cx == "skipped" then pure ()
    else
      if parked != "1" then bumpCount "dist:conclin:notparked"
      if conc != alone then
        oracleFail kind s!"{x} parked at access {k} ({site}) while read-only queries ran: outcome {conc} differs from the outcome of {x} alone {alone}"
  | _ => parseError line

/-! ### Readers parked in the middle of a call (family `conclinrd`, harness/fam_conc3.go)

X is a read-only query with many map accesses (GetLeafHashPositions of all cached leaves,
Prove of many leaves, GetMissingPositions of many targets, Write, GetStump, GetRoots) on a
forest of some hundred leaves, parked at its k-th access; Y = Modify / Undo.

ORACLE (property text: every query observes the state between two blocks, never a
half-applied one — and one call observes ONE state): the answer of X is the twin's answer
before Y or the twin's answer after Y, never a mixture (`conclin:rd.<X>-<Y>`); Y returns
what it returns alone and the final state is the twin's state after Y (same kind); nothing
hangs or panics unless the twin does (`conclin:crash`).

MODEL (lock table): when X takes the READ lock in the regular pattern and touches nothing
mutable before it, every access of X happens under that lock, hence a Y that takes the
write lock stays BLOCKED while X is parked (`conclin:sched`) and X answers for the state
before Y (`conclin:order`). -/

/-- the table says: every access of method `x` to a mutable field happens under the read lock
taken by `x` itself -/
def wholeBodyUnderR (x : String) : Bool :=
  match methodOfString? x with
  | none => false
  | some m =>
    let i := table m
    let mu := mutF table allMethods
    i.lock == .r && i.regular && i.preCalls.isEmpty && (i.preReads ++ i.preWrites).all (fun f => !mu f)

def takesWriteLock (y : String) : Bool :=
  match methodOfString? y with
  | none => false
  | some m => (table m).lock == .w

/-- atoms of an answer token -/
def rdAtoms (a : String) : List String := if a == "-" then [] else a.splitOn ","

/-- per atom: 0 = the twin's answers agree and so does X, 1 = X has the value before Y,
2 = the value after Y, 3 = neither -/
def rdClasses : List String → List String → List String → List Nat
  | r :: rs, a :: as, b :: bs =>
    (if a == b then (if r == a then 0 else 3) else if r == a then 1 else if r == b then 2 else 3) :: rdClasses rs as bs
  | _, _, _ => []

def rdClassName : Nat → String
  | 1 => "before" | 2 => "after" | 0 => "same" | _ => "NEITHER"

/-- runs of equal class over the atoms on which X's answer is informative (class ≠ 0):
(class, first index, last index, number of atoms) -/
def rdRuns (cls : List Nat) : List (Nat × Nat × Nat × Nat) :=
  let rec go (l : List Nat) (i : Nat) (cur : Option (Nat × Nat × Nat × Nat)) (acc : List (Nat × Nat × Nat × Nat)) :=
    match l with
    | [] => (match cur with | some c => c :: acc | none => acc).reverse
    | c :: rest =>
      if c == 0 then go rest (i + 1) cur acc
      else match cur with
        | some (c0, f, _, n) => if c0 == c then go rest (i + 1) (some (c0, f, i, n + 1)) acc
                                 else go rest (i + 1) (some (c, i, i, 1)) ((c0, f, i - 1, n) :: acc)
        | none => go rest (i + 1) (some (c, i, i, 1)) acc
  go cls 0 none []

/-- "which part of the answer belongs to which state" -/
def rdMixture (res pre post : String) : String :=
  let r := rdAtoms res; let a := rdAtoms pre; let b := rdAtoms post
  let cls := rdClasses r a b
  let n (c : Nat) := (cls.filter (· == c)).length
  let runs := rdRuns cls
  let shown := (runs.take 6).map (fun (c, f, l, k) => s!"#{f}..#{l}:{k}x{rdClassName c}")
  let firstOf (c : Nat) : String :=
    match cls.findIdx? (· == c) with
    | some i => s!" first {rdClassName c}-Y atom #{i}={r.getD i "?"} (before {a.getD i "?"}, after {b.getD i "?"});"
    | none => ""
  let lens := if r.length == a.length && r.length == b.length then s!"{r.length} atoms" else s!"atoms: answer {r.length}, before-Y {a.length}, after-Y {b.length}"
  s!"{lens}; {n 1} as before Y, {n 2} as after Y, {n 3} as neither, {n 0} do not depend on Y;{firstOf 1}{firstOf 2}{firstOf 3} runs over the Y-dependent atoms: {" ".intercalate shown}{if runs.length > 6 then s!" … ({runs.length} runs)" else ""}"

def rdSizeBucket (n : Nat) : String :=
  if n < 64 then "0-63" else if n < 128 then "64-127" else if n < 256 then "128-255" else if n < 512 then "256-511" else "512+"

def handleConcLinRd (line : String) (toks : List String) : M Unit := do
  match toks with
  | [x, y, _cfg, leaves, k, kmax, site, parked, ysched, yres, yalone, final, postY, res, pre, post] =>
    let kind := s!"conclin:rd.{x}-{y}"
    count kind line (pre != post)
    bumpCount s!"dist:conclin:rd:leaves:{rdSizeBucket (leaves.toNat?.getD 0)}"
    bumpCount s!"dist:conclin:rd:K:{rdSizeBucket (kmax.toNat?.getD 0)}"
    bumpCount s!"dist:conclin:rd:k:{rdSizeBucket (k.toNat?.getD 0)}"
    let bad (s : String) := s == "hang" || s == "panic"
    if [yres, yalone, res, pre, post].any (· == "hang") || final == "hang" || postY == "hang" then
      oracleFail "conclin:crash" s!"{x} parked at access {k} ({site}) with {y} started: a call did not return (deadlock watchdog): X={trunc res 40} Y={yres} (Y alone: {yalone}; X on the twin: {trunc pre 40} / {trunc post 40})"
    else if res == "skipped" || yres == "skipped" || pre == "skipped" || post == "skipped" then pure ()
    else
      if parked != "1" then bumpCount "dist:conclin:notparked"
      if (res == "panic" && !bad pre && !bad post) || (yres == "panic" && yalone != "panic") then
        oracleFail "conclin:crash" s!"{x} parked at access {k} ({site}) with {y} started: panic (X={trunc res 40} Y={yres}) that the sequential twin does not show"
      -- oracle: one call, one state
      let m := if res == pre && res == post then "both" else if res == pre then "pre" else if res == post then "post" else "none"
      bumpCount s!"dist:conclin:rd.{x}-{y}:{m}"
      if pre != post then
        bumpCount s!"dist:conclin:rd:moved:{rdSizeBucket (((rdClasses (rdAtoms pre) (rdAtoms pre) (rdAtoms post)).filter (· != 0)).length)}"
      if m == "none" then
        if res == "err" || res.startsWith "err:" || res == "panic" || res == "malformed" then
          oracleFail kind s!"{x} (forest of {leaves} leaves) parked at its access {k} of {kmax} ({site}), {y} {ysched}: the call returned {res}; before {y} it returns {trunc pre 150} and after it {trunc post 150}"
        else
          oracleFail kind s!"{x} (forest of {leaves} leaves) parked at its access {k} of {kmax} ({site}), {y} {ysched}: the answer is neither the answer before {y} nor the answer after it but a MIXTURE: {rdMixture res pre post}"
      -- Y and the final state
      if yres != yalone || final != postY then
        oracleFail kind s!"{x} parked at its access {k} of {kmax} ({site}), {y} {ysched}: {y} returned {yres} and left {final}; alone it returns {yalone} and leaves {postY}"
      -- model prediction from the lock table
      if parked == "1" && wholeBodyUnderR x && takesWriteLock y then
        expectEq "conclin:sched" s!"{y} blocked while {x} is parked at {site}" s!"{y} {ysched} while {x} is parked at {site}"
        if ysched == "blocked" then
          expectEq "conclin:order" s!"{x} = {trunc pre 200} (the state before {y})" s!"{x} = {trunc res 200} (the state before {y})"
  | _ => parseError line

def handleConcLin (line : String) (toks : List String) : M Unit := do
  match toks with
  | "pair" :: rest => handleConcLinPair line rest
  | "q" :: rest => handleConcLinQ line rest
  | "qw" :: rest => handleConcLinQW line rest
  | "rd" :: rest => handleConcLinRd line rest
  | "info" :: _ => bumpCount "conclininfo"
  | "dump" :: _ => bumpCount "conclindump"
  | _ => parseError line

end UtreexoVerif.Driver
