/-
  Property C09 — sessions of partial (and full) map forests: lines
      pm <label> <op> <args…> <result>
      pd <label> <numLeaves> <totalRows> <cached> <nodes>
  written by the harness families `partial` / `partialexh` (harness/fam_partial.go).

  Two independent judgements per line:

  * ORACLE (written from the property text, independent of the code): the driver tracks the
    specification forest `F` (lines `new` / `block` / `undo`) and, per instance, the EXPECTED
    CACHED SET `K`; after every operation the dump must satisfy
      (i)   every stored (pos ↦ hash): the node at (row, offset) of `F` has that hash
            (an empty root stores the zero hash);
      (ii)  `CachedLeaves` = { x ↦ position of x | x ∈ K };
      (iii) required ⊆ stored ⊆ allowed, where
              required = roots ∪ ⋃_{x∈K} ({pos x} ∪ siblings of the non-root nodes of path x)
              allowed  = roots ∪ ⋃_{x∈K} (path x ∪ siblings of the non-root nodes of path x);
            `Prove L` for `L ⊆ K` must succeed and equal the canonical proof of `F`;
      (iv)  `Prune L`: the same with `K \ L`, nothing is added, no hash changes, and nothing
            that is required for `K \ L` is removed.
  * MODEL (`Model/MapPollard.lean`, the transliteration of mappollard.go): every operation is
    replayed on the model and the dump is compared ENTRY BY ENTRY (`Nodes` with remember
    flags, `CachedLeaves`, `NumLeaves`, `TotalRows`) together with every result.
-/
import UtreexoVerif.Driver.State
import UtreexoVerif.Driver.Forest
import UtreexoVerif.Model.MapPollard
import UtreexoVerif.Model.MapInvCheck

namespace UtreexoVerif.Driver
open UtreexoVerif Model Spec Std

/-- what the driver keeps per map-forest instance -/
structure PInst where
  full : Bool := false
  /-- expected cached set -/
  K : HashSet H256 := {}
  /-- the previous dump (decoded): (row, offset) ↦ hash -/
  lastNodes : HashMap (Nat × Nat) H256 := {}
  /-- the latest operation was `prune` (evaluate (iv) on the next dump) -/
  pruned : Bool := false
  /-- K before the latest operation -/
  prevK : HashSet H256 := {}
  /-- a listed known-finding class the instance is inside, if any (none is listed for C09 at
  present: the only defect found, the surplus-proof trimming of `ingest`, is fixed in /repo
  d0fcc39); oracle rejections of such an instance would be reported as KNOWN, not ORACLE -/
  tainted : Option String := none
  /-- the transliterated model's state (`none`: model not available for this instance) -/
  model : Option (MapPollard H256) := none
deriving Inhabited

structure PSt where
  insts : HashMap String PInst := {}
deriving Inhabited

initialize pRef : IO.Ref PSt ← IO.mkRef {}

def getInst (l : String) : M (Option PInst) := do
  let ps ← (pRef.get : IO PSt)
  pure (ps.insts.get? l)

def setInst (l : String) (i : PInst) : M Unit :=
  (pRef.modify fun ps => { ps with insts := ps.insts.insert l i } : IO Unit)

def dropInst (l : String) : M Unit :=
  (pRef.modify fun ps => { ps with insts := ps.insts.erase l } : IO Unit)

-- ---------- parsing of the dump ----------

def parseCachedPD (s : String) : Option (List (H256 × Nat)) :=
  if s == "-" then some [] else
  (s.splitOn ",").mapM fun e =>
    match e.splitOn ":" with
    | [h, p] => do
      let hh ← (if h == "z" then some H256.zero else H256.ofHex? h)
      let pp ← p.toNat?
      pure (hh, pp)
    | _ => none

def parseNodes (s : String) : Option (List (Nat × H256 × Bool)) :=
  if s == "-" then some [] else
  (s.splitOn ",").mapM fun e =>
    match e.splitOn ":" with
    | [p, h, r] => do
      let pp ← p.toNat?
      let hh ← (if h == "z" then some H256.zero else H256.ofHex? h)
      pure (pp, hh, r == "1")
    | _ => none

def parseHashesZ (s : String) : Option (List H256) :=
  if s == "-" then some [] else
  (s.splitOn ",").mapM (fun h => if h == "z" then some H256.zero else H256.ofHex? h)

/-- decode a position written for a forest of `T` rows into (row, offset) -/
def decodePos (T : Nat) (p : Nat) : Option Pos :=
  let top := 2 ^ (T + 1)
  if p + 1 ≥ top then none
  else
    let rec go (fuel r : Nat) : Option Pos :=
      match fuel with
      | 0 => none
      | fuel + 1 =>
        let next := top - 2 ^ (T - r)          -- start of row r+1
        if p < next then some (r, p - (top - 2 ^ (T + 1 - r))) else go fuel (r + 1)
    go (T + 1) 0

-- ---------- the sets of the oracle ----------

/-- (allowed, required) position sets for the cached set `K` -/
def neededSets (I : Spec.Index H256) (K : List H256) : HashSet Pos × HashSet Pos := Id.run do
  let mut allowed : HashSet Pos := {}
  let mut required : HashSet Pos := {}
  for h in treeRows I.n do
    allowed := allowed.insert (rootPos I.n h)
    required := required.insert (rootPos I.n h)
  for x in K do
    match I.posOf x with
    | none => pure ()
    | some p =>
      required := required.insert p
      for q in Forest.pathUp I.n (I.rows + 1) p do
        allowed := allowed.insert q
        if !isRootPos I.n q then
          allowed := allowed.insert (sib q)
          required := required.insert (sib q)
  return (allowed, required)

def posStr (p : Pos) : String := s!"({p.1},{p.2})"

def sizeBucket (n : Nat) : String :=
  if n == 0 then "0" else if n ≤ 2 then "1-2" else if n ≤ 8 then "3-8" else if n ≤ 32 then "9-32" else "33+"

/-- report an oracle rejection, or a known finding when the instance is inside a listed class -/
def pFail (inst : PInst) (kind what : String) : M Unit :=
  match inst.tainted with
  | some cls => knownFinding cls s!"{kind}: {what}"
  | none => oracleFail kind what

/-- the oracle on one dump -/
def checkDump (label : String) (line : String) (inst : PInst) (n T : Nat)
    (cached : List (H256 × Nat)) (nodes : List (Nat × H256 × Bool)) : M PInst := do
  let I ← getIndex
  let K := inst.K.toList
  count "p:dump" line (!K.isEmpty)
  count s!"p:size:K={sizeBucket K.length}" line
  count s!"p:size:n={sizeBucket I.n}" line
  if n != I.n then
    pFail inst "p:numleaves" s!"{label}: NumLeaves {n}, specification {I.n}"
  if T < I.rows then
    pFail inst "p:rows" s!"{label}: TotalRows {T} below TreeRows {I.rows}"
    return inst
  -- (i) every stored hash is the true hash
  let mut stored : HashMap Pos H256 := {}
  let mut bad := 0
  for (p, h, _) in nodes do
    match decodePos T p with
    | none =>
      bad := bad + 1
      if bad ≤ 2 then pFail inst "p:true" s!"{label}: stored position {p} is not a position of a forest of {T} rows"
    | some ro =>
      stored := stored.insert ro h
      match I.byRO.get? ro with
      | some t =>
        if t != h then
          bad := bad + 1
          if bad ≤ 2 then pFail inst "p:true" s!"{label}: stored {hx h} at {p} = {posStr ro}, the node there has {hx t}"
      | none =>
        bad := bad + 1
        if bad ≤ 2 then pFail inst "p:true" s!"{label}: stored {hx h} at {p} = {posStr ro}, no node there"
  -- (ii) CachedLeaves = { x ↦ pos x | x ∈ K }
  let expC := (K.filterMap fun x => (I.posOf x).map fun p => (hx x, enc T p)).mergeSort (fun a b => a.1 ≤ b.1)
  let gotC := (cached.map fun (h, p) => (hx h, p)).mergeSort (fun a b => a.1 ≤ b.1)
  if K.any (fun x => (I.posOf x).isNone) then
    pFail inst "p:drift" s!"{label}: an expected cached leaf is not live in the specification (harness/driver drift)"
  if expC != gotC then
    let missing := expC.filter (fun e => !gotC.contains e)
    let extra := gotC.filter (fun e => !expC.contains e)
    pFail inst "p:cached" s!"{label}: CachedLeaves differs: missing/misplaced {missing.take 2}, unexpected {extra.take 2} (|K|={K.length}, |cached|={cached.length})"
  -- (iii) required ⊆ stored ⊆ allowed
  let (allowed, required) := neededSets I K
  let extra := stored.toList.filter (fun (p, _) => !allowed.contains p)
  if !extra.isEmpty then
    pFail inst "p:unneeded" s!"{label}: {extra.length} stored position(s) needed by no cached leaf, e.g. {posStr extra.head!.1}"
  let missing := required.toList.filter (fun p => !stored.contains p)
  if !missing.isEmpty then
    pFail inst "p:missing" s!"{label}: {missing.length} needed position(s) not stored, e.g. {posStr missing.head!}"
  -- (iv of the invariant `Proofs/MapInv.lean`; not in the property text, but what keeps a
  -- cached leaf from being pruned): a stored non-root node of a partial forest carries the
  -- remember flag iff it is the position of a cached leaf
  let leafPos : HashSet Pos := K.foldl (fun s x => match I.posOf x with | some p => s.insert p | none => s) {}
  let flagOff := nodes.filter fun (p, _, r) =>
    match decodePos T p with
    | some ro => leafPos.contains ro && !r
    | none => false
  let flagOn := nodes.filter fun (p, _, r) =>
    match decodePos T p with
    | some ro => !leafPos.contains ro && r && !isRootPos I.n ro
    | none => false
  if !inst.full then
    if !flagOff.isEmpty then
      pFail inst "p:flags" s!"{label}: the stored node of a cached leaf (position {flagOff.head!.1}) does not carry the remember flag"
    if !flagOn.isEmpty then
      pFail inst "p:flags" s!"{label}: stored non-root position {flagOn.head!.1} carries the remember flag but is no cached leaf"
  -- (iv) pruning removes exactly what no other remembered leaf needs
  if inst.pruned then
    let added := stored.toList.filter (fun (p, h) => inst.lastNodes.get? p != some h)
    if !added.isEmpty then
      pFail inst "p:prune" s!"{label}: Prune added or changed {posStr added.head!.1}"
    let lost := inst.lastNodes.toList.filter (fun (p, _) => !stored.contains p && required.contains p)
    if !lost.isEmpty then
      pFail inst "p:prune" s!"{label}: Prune removed {posStr lost.head!.1}, which another cached leaf needs"
    -- how exact: kept = old ∩ allowed(K') ?
    let keptExact := inst.lastNodes.toList.all (fun (p, _) => stored.contains p == allowed.contains p)
    count (if keptExact then "p:prune:exact" else "p:prune:ancestorsDropped") line
  pure { inst with lastNodes := stored, pruned := false }

/-- `pd <label> <numLeaves> <totalRows> <cached> <nodes>` -/
def oraclePD (line : String) (toks : List String) : M Unit := do
  match toks with
  | [label, n, t, c, nd] =>
    match n.toNat?, t.toNat?, parseCachedPD c, parseNodes nd with
    | some n, some t, some c, some nd =>
      match ← getInst label with
      | some inst =>
        let inst ← checkDump label line inst n t c nd
        setInst label inst
      | none => parseError line
    | _, _, _, _ => parseError line
  | [label, res] => mismatch "p:dump" "a dump" s!"{label} {res}"
  | _ => parseError line

/-- `pm <label> <op> …` -/
def oraclePM (line : String) (toks : List String) : M Unit := do
  let I ← getIndex
  match toks with
  | [label, "new", _rows, full] =>
    setInst label { full := full == "1" }
    count "p:new" line
  | [label, "fromroots", n, roots] =>
    setInst label {}
    count "p:fromroots" line
    expectEq "p:fromroots" s!"{I.n} {hxs I.roots}" s!"{n} {roots}"
  | [label, "fromrootsrows", _rows, n, roots] =>
    setInst label {}
    count "p:fromroots" line
    expectEq "p:fromroots" s!"{I.n} {hxs I.roots}" s!"{n} {roots}"
  | [label, "drop"] => dropInst label
  | label :: op :: rest =>
    match ← getInst label with
    | none => parseError line
    | some inst0 =>
    let inst := { inst0 with prevK := inst0.K, pruned := false }
    match op, rest with
    | "modify", [d, _t, _p, a, fl, res] =>
      match parseHashes d, parseHashes a, parseNats fl with
      | some dels, some adds, some flags =>
        count "p:modify" line (dels.length + adds.length > 0)
        let deletable := inst.full || dels.all inst.K.contains
        if res == "ok" then
          let K1 := dels.foldl (fun k x => k.erase x) inst.K
          let K2 := (adds.zip flags).foldl (fun k (x, f) => if f == 1 || inst.full then k.insert x else k) K1
          setInst label { inst with K := K2 }
        else
          if deletable then pFail inst "p:modify" s!"{label}: Modify of cached deletions answered {res}"
          else count "p:modify:uncached" line
          setInst label inst
      | _, _, _ => parseError line
    | "undo", [_na, _t, _p, _d, _pr, res] =>
      let s ← get
      match s.lastUndone with
      | some b =>
        count "p:undo" line
        if res == "ok" then
          let K1 := b.adds.foldl (fun k x => k.erase x) inst.K
          let K2 := b.dels.foldl (fun k x => k.insert x) K1
          setInst label { inst with K := K2 }
        else
          pFail inst "p:undo" s!"{label}: Undo of the newest block answered {res}"
          setInst label inst
      | none => parseError line
    | vop, [h, _t, _p, rem, res] =>
      if vop == "verify" || vop == "verifyjunk" || vop == "vpartial" then
        -- (vpartial has the targets first: `vpartial T D P rem res`)
        let hs := if vop == "vpartial" then parseHashes _t else parseHashes h
        match hs with
        | some hs =>
          count s!"p:{vop}" line (rem == "1")
          if res != "ok" then
            if hs.all (fun x => (I.posOf x).isSome) then
              pFail inst s!"p:{vop}" s!"{label}: honest proof of live leaves answered {res}"
            setInst label inst
          else
            let K' := if rem == "1" then hs.foldl (fun k x => k.insert x) inst.K else inst.K
            setInst label { inst with K := K' }
        | none => parseError line
      else parseError line
    | "ingest", [h, _t, _p, res] =>
      match parseHashes h with
      | some hs =>
        count "p:ingest" line
        if res != "ok" then
          pFail inst "p:ingest" s!"{label}: Ingest of an honest proof answered {res}"
          setInst label inst
        else setInst label { inst with K := hs.foldl (fun k x => k.insert x) inst.K }
      | none => parseError line
    | "prune", [h, res] =>
      match parseHashes h with
      | some hs =>
        count "p:prune" line
        if res != "ok" then
          pFail inst "p:prune" s!"{label}: Prune answered {res}"
          setInst label inst
        else if inst.full then setInst label inst
        else setInst label { inst with K := hs.foldl (fun k x => k.erase x) inst.K, pruned := true }
      | none => parseError line
    | "prove", req :: res =>
      match parseHashes req with
      | some rq =>
        let got := " ".intercalate res
        let inK := rq.all inst.K.contains
        count (if inK then "p:prove" else "p:prove:uncached") line
        let exp := match I.canon rq with
          | some (ts, hs) => s!"ok {nats (ts.map (enc I.rows))} {hxs hs}"
          | none => "err"
        if inK then
          if exp != got then pFail inst "p:prove" s!"{label}: Prove of cached leaves: expected {trunc exp 200} got {trunc got 200}"
        else if got.startsWith "ok" && exp != got then
          pFail inst "p:prove" s!"{label}: Prove of leaves outside the cache answered a non-canonical proof {trunc got 200}"
      | none => parseError line
    | "roots", [r] =>
      count "p:roots" line
      if hxs I.roots != r then pFail inst "p:roots" s!"{label}: GetRoots {trunc r 200}, specification {trunc (hxs I.roots) 200}"
    | "gethash", [p, h] =>
      match p.toNat? with
      | some pp =>
        count "p:gethash" line (h != "z")
        let truth := match I.nodeAtEnc pp with
          | some t => hx t
          | none => "z"
        if h != "z" && h != truth then pFail inst "p:gethash" s!"{label}: GetHash({pp}) = {h}, the node there has {truth}"
      | none => parseError line
    | "getpos", [h, res] =>
      match (if h == "z" then some H256.zero else H256.ofHex? h) with
      | some hh =>
        count "p:getpos" line (res != "none")
        let exp := if inst.K.contains hh then
            match I.posOf hh with
            | some p => toString (enc I.rows p)
            | none => "none"
          else "none"
        if exp != res then pFail inst "p:getpos" s!"{label}: GetLeafPosition({h}) = {res}, expected {exp}"
      | none => parseError line
    | "missing", _ => count "p:missing" line
    | _, _ => parseError line
  | _ => parseError line

-- =====================================================================================
-- the transliterated model (Model/MapPollard.lean) replayed on the same lines
-- =====================================================================================

abbrev MPH := MapPollard H256

/-- canonical form of a state for the entry-by-entry comparison -/
structure Canon where
  n : Nat
  rows : Nat
  cached : List (H256 × Nat)
  nodes : List (Nat × H256 × Bool)
deriving BEq

def canonOfDump (n T : Nat) (cached : List (H256 × Nat)) (nodes : List (Nat × H256 × Bool)) : Canon :=
  { n := n, rows := T,
    cached := cached.mergeSort (fun a b => compare a.1 b.1 != .gt),
    nodes := nodes.mergeSort (fun a b => a.1 ≤ b.1) }

def canonOfModel (m : MPH) : Canon :=
  canonOfDump m.numLeaves.toNat m.totalRows.toNat (m.cached.map fun (h, p) => (h, p.toNat))
    (m.nodes.map fun (p, l) => (p.toNat, l.hash, l.remember))

def modelOfDump (full : Bool) (c : Canon) : MPH :=
  { nodes := c.nodes.map fun (p, h, r) => (BitVec.ofNat 64 p, ⟨h, r⟩),
    cached := c.cached.map fun (h, p) => (h, BitVec.ofNat 64 p),
    numLeaves := BitVec.ofNat 64 c.n, totalRows := BitVec.ofNat 8 c.rows, full := full }

/-- short description of how two canonical states differ (expected = model, got = Go) -/
def canonDiff (e g : Canon) : String :=
  let hdr := (if e.n != g.n then s!"NumLeaves {e.n}≠{g.n} " else "") ++ (if e.rows != g.rows then s!"TotalRows {e.rows}≠{g.rows} " else "")
  let nm := e.nodes.filter (fun x => !g.nodes.contains x)
  let ng := g.nodes.filter (fun x => !e.nodes.contains x)
  let cm := e.cached.filter (fun x => !g.cached.contains x)
  let cg := g.cached.filter (fun x => !e.cached.contains x)
  let showN (l : List (Nat × H256 × Bool)) := ",".intercalate ((l.take 3).map fun (p, h, r) => s!"{p}:{(hx h).take 8}:{b01 r}")
  let showC (l : List (H256 × Nat)) := ",".intercalate ((l.take 3).map fun (h, p) => s!"{(hx h).take 8}:{p}")
  s!"{hdr}Nodes only-model[{nm.length}]={showN nm} only-go[{ng.length}]={showN ng}; Cached only-model[{cm.length}]={showC cm} only-go[{cg.length}]={showC cg}"

def resTag : Except Fail Unit → String
  | .ok _ => "ok"
  | .error e => e.tag

/-- run a state-changing operation on the model and compare the result tag -/
def applyOp (label kind goRes : String) (inst : PInst) (m : MPH) (step : MPM H256 Unit) : M Unit := do
  let (m', r) := step m
  expectEq s!"pm:{kind}" (resTag r) goRes
  if m'.orderDep > 0 then
    oracleFail "pm:maporder" s!"{label}: {kind}: the result can depend on Go's map iteration order ({m'.orderDep} event(s))"
  setInst label { inst with model := some { m' with orderDep := 0 } }

def parseLeaves (a fl : String) : Option (List (Leaf H256)) := do
  let adds ← parseHashes a
  let flags ← parseNats fl
  if adds.length != flags.length then none
  else pure ((adds.zip flags).map fun (h, f) => ⟨h, f == 1⟩)

/-- model side of a `pm` line -/
def modelPM (line : String) (toks : List String) : M Unit := do
  match toks with
  | [label, "new", rows, full] =>
    match rows.toNat?, ← getInst label with
    | some r, some inst =>
      setInst label { inst with model := some { (MapPollard.new (full == "1") : MPH) with totalRows := BitVec.ofNat 8 r } }
    | _, _ => parseError line
  | [label, "fromroots", n, roots] =>
    match parseU64 n, parseHashes roots, ← getInst label with
    | some n, some roots, some inst =>
      match MapPollard.fromRoots roots n false with
      | .ok m => setInst label { inst with model := some m }
      | .error e => mismatch "pm:fromroots" e.tag "ok"
    | _, _, _ => parseError line
  | [label, "fromrootsrows", rows, n, roots] =>
    match rows.toNat?, parseU64 n, parseHashes roots, ← getInst label with
    | some r, some n, some roots, some inst =>
      match MapPollard.fromRootsAt (BitVec.ofNat 8 r) roots n false with
      | .ok m => setInst label { inst with model := some m }
      | .error e => mismatch "pm:fromroots" e.tag "ok"
    | _, _, _, _ => parseError line
  | [_, "drop"] => pure ()
  | label :: op :: rest =>
    match ← getInst label with
    | none => pure ()
    | some inst =>
    match inst.model with
    | none => pure ()
    | some m =>
    match op, rest with
    | "modify", [d, t, _p, a, fl, res] =>
      match parseHashes d, parseU64s t, parseLeaves a fl with
      | some dels, some ts, some adds =>
        count "pm:modify" line
        applyOp label "modify" res inst m (MapPollard.modify adds dels ts)
      | _, _, _ => parseError line
    | "undo", [na, t, p, d, pr, res] =>
      match parseU64 na, parseU64s t, parseHashes p, parseHashes d, parseHashes pr with
      | some na, some ts, some ps, some dels, some prev =>
        count "pm:undo" line
        applyOp label "undo" res inst m (MapPollard.undo nonZeroPlaceholder na ts ps dels prev)
      | _, _, _, _, _ => parseError line
    | "vpartial", [t, d, p, rem, res] =>
      match parseU64s t, parseHashes d, parseHashes p with
      | some ts, some dels, some ps =>
        count "pm:vpartial" line
        applyOp label "vpartial" res inst m (MapPollard.verifyPartialProof ts dels ps (rem == "1"))
      | _, _, _ => parseError line
    | "ingest", [h, t, p, res] =>
      match parseHashes h, parseU64s t, parseHashes p with
      | some hs, some ts, some ps =>
        count "pm:ingest" line
        applyOp label "ingest" res inst m (MapPollard.ingest hs ts ps)
      | _, _, _ => parseError line
    | "prune", [h, res] =>
      match parseHashes h with
      | some hs =>
        count "pm:prune" line
        applyOp label "prune" res inst m (MapPollard.prune hs)
      | none => parseError line
    | "prove", req :: res =>
      match parseHashes req with
      | some rq =>
        count "pm:prove" line
        let exp := match m.prove rq with
          | .ok (ts, hs) => s!"ok {u64s ts} {hxs hs}"
          | .error e => e.tag
        expectEq "pm:prove" exp (" ".intercalate res)
      | none => parseError line
    | "roots", [r] =>
      count "pm:roots" line
      expectEq "pm:roots" (hxs m.roots) r
    | "gethash", [p, h] =>
      match parseU64 p with
      | some pp =>
        count "pm:gethash" line (h != "z")
        expectEq "pm:gethash" (hx (m.getHash pp)) h
      | none => parseError line
    | "getpos", [h, res] =>
      match H256.ofHex? h with
      | some hh =>
        count "pm:getpos" line (res != "none")
        let exp := match m.getLeafPosition hh with
          | some p => u p
          | none => "none"
        expectEq "pm:getpos" exp res
      | none => parseError line
    | "missing", [t, "ok", res] =>
      match parseU64s t with
      | some ts =>
        count "pm:missing" line (res != "-")
        expectEq "pm:missing" (u64s (m.getMissingPositions ts)) res
      | none => parseError line
    | vop, [h, t, p, rem, res] =>
      if vop == "verify" || vop == "verifyjunk" then
        match parseHashes h, parseU64s t, parseHashes p with
        | some hs, some ts, some ps =>
          count s!"pm:{vop}" line
          applyOp label vop res inst m (MapPollard.verifyM hs ts ps (rem == "1"))
        | _, _, _ => parseError line
      else pure ()
    | _, _ => pure ()
  | _ => pure ()

/-- model side of a `pd` line: entry-by-entry comparison of the dump with the model's state;
after a disagreement the model is re-synchronised with the dump, so that later operations
are judged on their own -/
def modelPD (line : String) (toks : List String) : M Unit := do
  match toks with
  | [label, n, t, c, nd] =>
    match n.toNat?, t.toNat?, parseCachedPD c, parseNodes nd, ← getInst label with
    | some n, some t, some c, some nd, some inst =>
      match inst.model with
      | none => pure ()
      | some m =>
        let got := canonOfDump n t c nd
        let exp := canonOfModel m
        count "pm:dump" line (!nd.isEmpty)
        if exp != got then
          mismatch "pm:dump" "the model's state" s!"{label}: {canonDiff exp got}"
          setInst label { inst with model := some (modelOfDump inst.full got) }
    | _, _, _, _, _ => pure ()
  | _ => pure ()

def handlePM (line : String) (toks : List String) : M Unit := do
  oraclePM line toks
  modelPM line toks

/-- the invariant of `Props/C09.lean` itself, evaluated on the dump with the executable check
`invCheck` that is proved sound for it (`Props.C09.invCheck_sound`); only for small forests
(the check walks the specification's node list for every look-up) -/
def invPD (line : String) (toks : List String) : M Unit := do
  match toks with
  | [label, n, t, c, nd] =>
    match n.toNat?, t.toNat?, parseCachedPD c, parseNodes nd, ← getInst label with
    | some n, some t, some c, some nd, some inst =>
      let s ← get
      if s.forest.numLeaves ≤ 24 && t ≤ 63 then
        count "p:inv" line (!c.isEmpty)
        let m := modelOfDump inst.full (canonOfDump n t c nd)
        if !invCheck m s.forest then
          pFail inst "p:inv" s!"{label}: the dumped state does not satisfy the storage invariant Inv (invCheck = false)"
    | _, _, _, _, _ => pure ()
  | _ => pure ()

def handlePD (line : String) (toks : List String) : M Unit := do
  modelPD line toks
  oraclePD line toks
  invPD line toks

end UtreexoVerif.Driver
