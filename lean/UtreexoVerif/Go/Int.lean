/-
  Go integer semantics used by every model file.

  * `U64`/`U8` are Go's `uint64`/`uint8`: arithmetic wraps, a shift by a count
    `>= width` yields 0 (that is what `BitVec`'s shift-by-`Nat` does, and what Go does).
  * Go's `int` is modelled by Lean's `Int` (no model function depends on `int` overflow).
  * A Go function returning `(T, error)` is modelled as returning `T × Bool`
    (`true` = non-nil error) so that call sites which ignore the error (`x, _ := f()`)
    see exactly the value Go hands back.
-/
namespace UtreexoVerif

abbrev U64 := BitVec 64
abbrev U8  := BitVec 8

namespace GoInt

/-- `math/bits.Len64` -/
def len64 (x : U64) : Int := if x = 0#64 then 0 else (x.toNat.log2 + 1 : Nat)

/-- `math/bits.OnesCount64` -/
def onesCount64 (x : U64) : Int := ((List.range 64).countP (fun i => x.getLsbD i) : Nat)

/-- Go `x << s` for an unsigned (or non-negative `int`) shift count given as a `Nat`.
The guard only keeps the compiled code from materialising `x * 2^s` for huge `s`;
logically it is `x <<< s` (`shl_eq`). -/
@[inline] def shl {w : Nat} (x : BitVec w) (s : Nat) : BitVec w := if s < w then x <<< s else 0#w
/-- Go `x >> s` on an unsigned value. -/
@[inline] def shr {w : Nat} (x : BitVec w) (s : Nat) : BitVec w := if s < w then x >>> s else 0#w

theorem shl_eq {w : Nat} (x : BitVec w) (s : Nat) : shl x s = x <<< s := by
  unfold shl
  split
  · rfl
  · rename_i h
    exact (BitVec.shiftLeft_eq_zero (by omega)).symm

theorem shr_eq {w : Nat} (x : BitVec w) (s : Nat) : shr x s = x >>> s := by
  unfold shr
  split
  · rfl
  · rename_i h
    exact (BitVec.ushiftRight_eq_zero (by omega)).symm

/-- conversion `uint8(x)` / `uint64(x)` between unsigned widths -/
@[inline] def conv {w : Nat} (v : Nat) (x : BitVec w) : BitVec v := x.setWidth v
/-- conversion `uintN(i)` from `int` -/
@[inline] def ofInt (v : Nat) (i : Int) : BitVec v := BitVec.ofInt v i
/-- conversion `int(x)` from an unsigned value -/
@[inline] def toInt {w : Nat} (x : BitVec w) : Int := (x.toNat : Int)

/-- `math.MaxUint64` -/
def maxUint64 : U64 := BitVec.allOnes 64

/-- Result of a fuel-bounded Go `for` loop (used by the generated translation of utils.go):
normal exit with the final state, a `return` from inside the loop, or fuel exhausted. -/
inductive LoopOut (σ ρ : Type)
  | done (s : σ)
  | ret (r : ρ)
  | outOfFuel

end GoInt
end UtreexoVerif
