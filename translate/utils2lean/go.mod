module utils2lean

go 1.21
