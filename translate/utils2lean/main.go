// utils2lean mechanically translates the integer/bit-level functions of
// utreexo's utils.go into pure Lean 4 definitions over BitVec.
//
//	utils2lean /repo/utils.go /verif/lean/UtreexoVerif/Gen/Utils.lean
//
// The program is deterministic, removes its output before doing anything else
// and exits non-zero (listing function, construct and file:line) if one of the
// functions in `targetNames` is missing or uses syntax it cannot translate.
package main

import (
	"fmt"
	"go/ast"
	"go/build"
	"go/constant"
	"go/importer"
	"go/parser"
	"go/token"
	"go/types"
	"os"
	"path/filepath"
	"sort"
	"strings"
)

// targetNames is the fixed list of functions to translate.
var targetNames = []string{
	"LeftChild", "RightChild", "ChildMany", "sibling", "leftSib", "rightSib",
	"Parent", "ParentMany", "isLeftNiece", "rootPosition", "rootExistsOnRow",
	"removeBit", "addBit", "calcNextPosition", "calcPrevPosition", "DetectRow",
	"getLowestRoot", "DetectOffset", "TreeRows", "numRoots", "maxLeafCount",
	"maxPosition", "startPositionAtRow", "maxPossiblePosAtRow",
	"maxPositionAtRow", "translatePos", "isRootPosition", "isRootPositionOnRow",
	"isRootPositionTotalRows", "isRootPositionOnRowTotalRows", "rootIdxOnRow", "isAncestor",
	"inForest", "subtreeRow", "getRootPosition",
}

// loopFuel is the fuel handed to every loop helper by its caller.
const loopFuel = 300

// reserved are names a Go local may not keep in the Lean output (Lean keywords
// and names the generated code itself relies on). Such locals get a `_` suffix.
var reserved = map[string]bool{}

func init() {
	for _, s := range strings.Fields(`
		fuel default decide shl shr conv ofInt toInt len64 onesCount64 maxUint64
		true false Nat Int Bool Unit U64 U8 BitVec LoopOut
		at from end open in do then else if let have show fun match with def
		theorem lemma instance where deriving mut for return namespace section
		import variable universe structure inductive class abbrev example axiom
		opaque private protected partial unsafe noncomputable macro syntax
		notation infix infixl infixr prefix postfix set_option by calc using
		suffices obtain exact nomatch nofun try catch finally unless break
		continue Type Sort Prop forall exists local scoped attribute export
		mutual extends this`) {
		reserved[s] = true
	}
}

// ---------------------------------------------------------------------------
// errors

type unsupported struct {
	pos token.Pos
	msg string
}

type gen struct {
	fset    *token.FileSet
	info    *types.Info
	pkg     *types.Package
	file    string // path of utils.go as given
	targets map[string]*ast.FuncDecl
	isTgt   map[*types.Func]string
}

func (g *gen) position(p token.Pos) string {
	pp := g.fset.Position(p)
	return fmt.Sprintf("%s:%d:%d", pp.Filename, pp.Line, pp.Column)
}

func (g *gen) shortPos(p token.Pos) string {
	pp := g.fset.Position(p)
	return fmt.Sprintf("%s:%d", filepath.Base(pp.Filename), pp.Line)
}

func fail(n ast.Node, format string, args ...interface{}) {
	panic(unsupported{n.Pos(), fmt.Sprintf(format, args...)})
}

func die(format string, args ...interface{}) {
	fmt.Fprintf(os.Stderr, "utils2lean: "+format+"\n", args...)
	os.Exit(1)
}

// ---------------------------------------------------------------------------
// importer: standard library from source, everything else (and failures) faked.
// The translated functions only depend on fmt/math/math/bits; a type error in
// a target function is fatal anyway (see main).

type imp struct {
	src   types.ImporterFrom
	dir   string
	fake  map[string]*types.Package
	notes []string
}

func (m *imp) Import(path string) (*types.Package, error) { return m.ImportFrom(path, m.dir, 0) }

func (m *imp) ImportFrom(path, dir string, mode types.ImportMode) (*types.Package, error) {
	first := path
	if i := strings.Index(first, "/"); i >= 0 {
		first = first[:i]
	}
	if !strings.Contains(first, ".") { // standard library
		if p, err := m.src.ImportFrom(path, dir, 0); err == nil {
			return p, nil
		} else {
			m.notes = append(m.notes, fmt.Sprintf("import %q failed (%v); using an empty stand-in", path, err))
		}
	}
	if p, ok := m.fake[path]; ok {
		return p, nil
	}
	p := types.NewPackage(path, filepath.Base(path))
	p.MarkComplete()
	m.fake[path] = p
	return p, nil
}

// ---------------------------------------------------------------------------
// Lean types

func isErrorType(t types.Type) bool {
	return types.Identical(t, types.Universe.Lookup("error").Type())
}

func basicKind(t types.Type) (types.BasicKind, bool) {
	b, ok := t.Underlying().(*types.Basic)
	if !ok {
		return 0, false
	}
	return b.Kind(), true
}

// width returns 64/8 for uint64/uint8 and 0 otherwise.
func width(t types.Type) int {
	k, ok := basicKind(t)
	if !ok {
		return 0
	}
	switch k {
	case types.Uint64:
		return 64
	case types.Uint8:
		return 8
	}
	return 0
}

func isInt(t types.Type) bool {
	k, ok := basicKind(t)
	return ok && k == types.Int
}

func isBool(t types.Type) bool {
	k, ok := basicKind(t)
	return ok && (k == types.Bool || k == types.UntypedBool)
}

func leanType(n ast.Node, t types.Type) string {
	if isErrorType(t) {
		return "Bool"
	}
	if tup, ok := t.(*types.Tuple); ok {
		var parts []string
		for i := 0; i < tup.Len(); i++ {
			parts = append(parts, leanType(n, tup.At(i).Type()))
		}
		if len(parts) == 0 {
			fail(n, "function without results")
		}
		return strings.Join(parts, " × ")
	}
	switch {
	case width(t) == 64:
		return "U64"
	case width(t) == 8:
		return "U8"
	case isInt(t):
		return "Int"
	case isBool(t):
		return "Bool"
	}
	fail(n, "unsupported type %s", t)
	return ""
}

func zeroValue(n ast.Node, t types.Type) string {
	switch leanType(n, t) {
	case "U64":
		return "0#64"
	case "U8":
		return "0#8"
	case "Int":
		return "(0 : Int)"
	case "Bool":
		return "false"
	}
	fail(n, "no zero value for type %s", t)
	return ""
}

// lit renders constant v in Go type t.
func lit(n ast.Node, v constant.Value, t types.Type) string {
	if isBool(t) {
		if v.Kind() != constant.Bool {
			fail(n, "non-boolean constant of boolean type")
		}
		if constant.BoolVal(v) {
			return "true"
		}
		return "false"
	}
	iv := constant.ToInt(v)
	if iv.Kind() != constant.Int {
		fail(n, "unsupported constant %s of type %s", v.ExactString(), t)
	}
	s := iv.ExactString()
	switch {
	case width(t) != 0:
		if constant.Sign(iv) < 0 {
			fail(n, "negative constant %s of unsigned type", s)
		}
		return fmt.Sprintf("%s#%d", s, width(t))
	case isInt(t):
		return fmt.Sprintf("(%s : Int)", s)
	}
	fail(n, "unsupported constant %s of type %s", s, t)
	return ""
}

// ---------------------------------------------------------------------------
// per-function translator

type loopInfo struct {
	name   string
	ro, st []*types.Var
}

type fn struct {
	g       *gen
	name    string
	decl    *ast.FuncDecl
	retType string
	w       *strings.Builder
	helpers []string
	loops   map[*ast.ForStmt]*loopInfo
	nloops  int
	names   map[string]*types.Var // Lean name -> the one Go variable using it
	lname   map[*types.Var]string
}

// lctx says how control-flow statements are rendered at the current place.
type lctx struct {
	ret       func(e string, atom bool) string // `return e`
	retPass   string                           // right-hand side of `| .ret r =>`
	outOfFuel string                           // right-hand side of `| .outOfFuel =>`
	brk, cont func(ind int)                    // nil outside loops
}

func (f *fn) emit(ind int, s string) {
	f.w.WriteString(strings.Repeat("  ", ind))
	f.w.WriteString(s)
	f.w.WriteString("\n")
}

func paren(s string, atom bool) string {
	if atom {
		return s
	}
	return "(" + s + ")"
}

// declare registers a Go local and returns its Lean name. Two distinct Go
// variables of one function may not share a name: the continuation-style
// translation duplicates code into branches, so Lean `let` shadowing would not
// follow Go's block scoping.
func (f *fn) declare(id *ast.Ident, v *types.Var) string {
	if id.Name == "_" {
		return "_"
	}
	if n, ok := f.lname[v]; ok {
		return n
	}
	n := id.Name
	if reserved[n] || f.g.targets[n] != nil {
		n += "_"
	}
	if other, ok := f.names[n]; ok && other != v {
		fail(id, "two distinct variables named %q in one function (first at %s)", n, f.g.position(other.Pos()))
	}
	f.names[n] = v
	f.lname[v] = n
	return n
}

func (f *fn) local(id *ast.Ident) (*types.Var, bool) {
	obj := f.g.info.Uses[id]
	if obj == nil {
		obj = f.g.info.Defs[id]
	}
	v, ok := obj.(*types.Var)
	if !ok {
		return nil, false
	}
	if _, ok := f.lname[v]; !ok {
		return nil, false
	}
	return v, true
}

func unparen(e ast.Expr) ast.Expr {
	for {
		p, ok := e.(*ast.ParenExpr)
		if !ok {
			return e
		}
		e = p.X
	}
}

func (f *fn) typeOf(e ast.Expr) types.TypeAndValue {
	tv, ok := f.g.info.Types[e]
	if !ok || tv.Type == nil {
		fail(e, "no type information for expression")
	}
	if b, ok := tv.Type.(*types.Basic); ok && b.Kind() == types.Invalid {
		fail(e, "expression has invalid type")
	}
	return tv
}

// pkgFunc returns ("math/bits","Len64") for a call to bits.Len64.
func (f *fn) pkgSel(e ast.Expr) (string, string, bool) {
	sel, ok := unparen(e).(*ast.SelectorExpr)
	if !ok {
		return "", "", false
	}
	id, ok := sel.X.(*ast.Ident)
	if !ok {
		return "", "", false
	}
	pn, ok := f.g.info.Uses[id].(*types.PkgName)
	if !ok {
		return "", "", false
	}
	return pn.Imported().Path(), sel.Sel.Name, true
}

// isErrCtor reports calls that build a non-nil error; their arguments are dropped.
func (f *fn) isErrCtor(call *ast.CallExpr) bool {
	p, n, ok := f.pkgSel(call.Fun)
	return ok && ((p == "fmt" && n == "Errorf") || (p == "errors" && n == "New"))
}

func (f *fn) expr(e ast.Expr) (string, bool) {
	e = unparen(e)
	tv := f.typeOf(e)
	if tv.IsNil() {
		return "false", true // nil error
	}
	if tv.Value != nil {
		if p, n, ok := f.pkgSel(e); ok && p == "math" && n == "MaxUint64" && width(tv.Type) == 64 {
			return "maxUint64", true
		}
		return lit(e, tv.Value, tv.Type), true
	}
	switch e := e.(type) {
	case *ast.Ident:
		if v, ok := f.local(e); ok {
			return f.lname[v], true
		}
		fail(e, "reference to %q, which is not a local variable or constant", e.Name)
	case *ast.UnaryExpr:
		x, xa := f.expr(e.X)
		t := f.typeOf(e.X).Type
		switch e.Op {
		case token.XOR:
			if width(t) == 0 {
				fail(e, "unary ^ on non-uint64/uint8 type %s", t)
			}
			return "~~~" + paren(x, xa), false
		case token.NOT:
			return "!" + paren(x, xa), false
		case token.SUB:
			if width(t) == 0 && !isInt(t) {
				fail(e, "unary - on type %s", t)
			}
			return "-" + paren(x, xa), false
		case token.ADD:
			return x, xa
		}
		fail(e, "unsupported unary operator %s", e.Op)
	case *ast.BinaryExpr:
		return f.binaryExpr(e)
	case *ast.CallExpr:
		return f.call(e)
	}
	fail(e, "unsupported expression %T", e)
	return "", false
}

func (f *fn) shiftCount(y ast.Expr) string {
	tv := f.typeOf(y)
	if tv.Value != nil {
		iv := constant.ToInt(tv.Value)
		if iv.Kind() != constant.Int || constant.Sign(iv) < 0 {
			fail(y, "bad constant shift count")
		}
		return iv.ExactString()
	}
	if width(tv.Type) == 0 && !isInt(tv.Type) {
		fail(y, "shift count of unsupported type %s", tv.Type)
	}
	s, a := f.expr(y)
	return paren(s, a) + ".toNat"
}

func (f *fn) binaryExpr(e *ast.BinaryExpr) (string, bool) {
	tx, ty := f.typeOf(e.X), f.typeOf(e.Y)
	if e.Op == token.SHL || e.Op == token.SHR {
		if width(tx.Type) == 0 {
			fail(e, "shift of non-uint64/uint8 type %s", tx.Type)
		}
		x, xa := f.expr(e.X)
		op := "shl"
		if e.Op == token.SHR {
			op = "shr"
		}
		return fmt.Sprintf("%s %s %s", op, paren(x, xa), f.shiftCount(e.Y)), false
	}
	if (e.Op == token.EQL || e.Op == token.NEQ) && (tx.IsNil() || ty.IsNil()) {
		other, ot := e.X, tx
		if tx.IsNil() {
			other, ot = e.Y, ty
		}
		if !isErrorType(ot.Type) {
			fail(e, "comparison of non-error type %s with nil", ot.Type)
		}
		s, a := f.expr(other)
		if e.Op == token.NEQ {
			return s, a
		}
		return "!" + paren(s, a), false
	}
	x, xa := f.expr(e.X)
	y, ya := f.expr(e.Y)
	return f.binop(e, e.Op, paren(x, xa), paren(y, ya), tx.Type), false
}

// binop renders `x op y` where both operands have Go type t (not for shifts).
func (f *fn) binop(n ast.Node, op token.Token, x, y string, t types.Type) string {
	bv, in, bo := width(t) != 0, isInt(t), isBool(t)
	switch op {
	case token.ADD, token.SUB, token.MUL:
		if bv || in {
			return x + " " + op.String() + " " + y
		}
	case token.AND:
		if bv {
			return x + " &&& " + y
		}
	case token.OR:
		if bv {
			return x + " ||| " + y
		}
	case token.XOR:
		if bv {
			return x + " ^^^ " + y
		}
	case token.AND_NOT:
		if bv {
			return x + " &&& ~~~" + y
		}
	case token.LSS, token.LEQ, token.GTR, token.GEQ:
		if bv || in {
			return "decide (" + x + " " + op.String() + " " + y + ")"
		}
	case token.EQL, token.NEQ:
		if bv || in || bo {
			return x + " " + op.String() + " " + y
		}
	case token.LAND, token.LOR:
		if bo {
			return x + " " + op.String() + " " + y
		}
	}
	fail(n, "unsupported operator %s on type %s", op, t)
	return ""
}

func (f *fn) call(c *ast.CallExpr) (string, bool) {
	if c.Ellipsis.IsValid() {
		fail(c, "variadic call")
	}
	ftv := f.typeOf(c.Fun)
	if ftv.IsType() { // conversion
		if len(c.Args) != 1 {
			fail(c, "malformed conversion")
		}
		to, from := ftv.Type, f.typeOf(c.Args[0]).Type
		x, xa := f.expr(c.Args[0])
		switch {
		case width(to) != 0 && width(from) == width(to), isInt(to) && isInt(from), isBool(to) && isBool(from):
			return x, xa
		case width(to) != 0 && width(from) != 0:
			return fmt.Sprintf("conv %d %s", width(to), paren(x, xa)), false
		case width(to) != 0 && isInt(from):
			return fmt.Sprintf("ofInt %d %s", width(to), paren(x, xa)), false
		case isInt(to) && width(from) != 0:
			return "toInt " + paren(x, xa), false
		}
		fail(c, "unsupported conversion from %s to %s", from, to)
	}
	if p, n, ok := f.pkgSel(c.Fun); ok {
		switch {
		case f.isErrCtor(c):
			return "true", true
		case p == "math/bits" && (n == "Len64" || n == "OnesCount64") && len(c.Args) == 1:
			x, xa := f.expr(c.Args[0])
			return map[string]string{"Len64": "len64 ", "OnesCount64": "onesCount64 "}[n] + paren(x, xa), false
		}
		fail(c, "call to unsupported library function %s.%s", p, n)
	}
	id, ok := unparen(c.Fun).(*ast.Ident)
	if !ok {
		fail(c, "unsupported call target %T", c.Fun)
	}
	fo, ok := f.g.info.Uses[id].(*types.Func)
	if !ok {
		fail(c, "call to %q, which is not a package-level function", id.Name)
	}
	name, ok := f.g.isTgt[fo]
	if !ok {
		fail(c, "call to function %q, which is not in the translated set", id.Name)
	}
	parts := []string{name}
	for _, a := range c.Args {
		s, at := f.expr(a)
		parts = append(parts, paren(s, at))
	}
	return strings.Join(parts, " "), len(parts) == 1
}

// ---------------------------------------------------------------------------
// statements

func tuplePat(names []string) string {
	switch len(names) {
	case 0:
		return "()"
	case 1:
		return names[0]
	}
	return "(" + strings.Join(names, ", ") + ")"
}

func extend(scope []*types.Var, v *types.Var) []*types.Var {
	for _, o := range scope {
		if o == v {
			return scope
		}
	}
	return append(scope[:len(scope):len(scope)], v)
}

// lhs returns the Lean name for an assignment target, declaring it if needed.
func (f *fn) lhs(e ast.Expr, scope *[]*types.Var) string {
	id, ok := unparen(e).(*ast.Ident)
	if !ok {
		fail(e, "assignment to non-variable %T", e)
	}
	if id.Name == "_" {
		return "_"
	}
	if d, ok := f.g.info.Defs[id].(*types.Var); ok && d != nil {
		n := f.declare(id, d)
		*scope = extend(*scope, d)
		return n
	}
	v, ok := f.local(id)
	if !ok {
		fail(id, "assignment to %q, which is not a local variable", id.Name)
	}
	return f.lname[v]
}

// simple translates a statement without control flow into `let` lines.
func (f *fn) simple(s ast.Stmt, scope *[]*types.Var, ind int) {
	switch s := s.(type) {
	case *ast.EmptyStmt:
	case *ast.AssignStmt:
		switch {
		case s.Tok == token.ASSIGN || s.Tok == token.DEFINE:
			// right-hand sides are evaluated before the targets are (re)bound
			var rhs []string
			for _, r := range s.Rhs {
				x, _ := f.expr(r)
				rhs = append(rhs, x)
			}
			if len(s.Rhs) == 1 && len(s.Lhs) > 1 {
				if _, ok := unparen(s.Rhs[0]).(*ast.CallExpr); !ok {
					fail(s, "multi-value assignment from %T", s.Rhs[0])
				}
			} else if len(s.Rhs) != len(s.Lhs) {
				fail(s, "assignment count mismatch")
			}
			var names []string
			for _, l := range s.Lhs {
				names = append(names, f.lhs(l, scope))
			}
			f.emit(ind, fmt.Sprintf("let %s := %s", tuplePat(names), tuplePat(rhs)))
		default: // op=
			op, ok := map[token.Token]token.Token{
				token.ADD_ASSIGN: token.ADD, token.SUB_ASSIGN: token.SUB, token.MUL_ASSIGN: token.MUL,
				token.AND_ASSIGN: token.AND, token.OR_ASSIGN: token.OR, token.XOR_ASSIGN: token.XOR,
				token.AND_NOT_ASSIGN: token.AND_NOT, token.SHL_ASSIGN: token.SHL, token.SHR_ASSIGN: token.SHR,
			}[s.Tok]
			if !ok || len(s.Lhs) != 1 || len(s.Rhs) != 1 {
				fail(s, "unsupported assignment operator %s", s.Tok)
			}
			t := f.typeOf(s.Lhs[0]).Type
			var val string
			if op == token.SHL || op == token.SHR {
				if width(t) == 0 {
					fail(s, "shift of non-uint64/uint8 type %s", t)
				}
				x, xa := f.expr(s.Lhs[0])
				val = fmt.Sprintf("%s %s %s", map[token.Token]string{token.SHL: "shl", token.SHR: "shr"}[op], paren(x, xa), f.shiftCount(s.Rhs[0]))
			} else {
				x, xa := f.expr(s.Lhs[0])
				y, ya := f.expr(s.Rhs[0])
				val = f.binop(s, op, paren(x, xa), paren(y, ya), t)
			}
			f.emit(ind, fmt.Sprintf("let %s := %s", f.lhs(s.Lhs[0], scope), val))
		}
	case *ast.IncDecStmt:
		t := f.typeOf(s.X).Type
		if width(t) == 0 && !isInt(t) {
			fail(s, "++/-- on type %s", t)
		}
		op := token.ADD
		if s.Tok == token.DEC {
			op = token.SUB
		}
		x, xa := f.expr(s.X)
		val := f.binop(s, op, paren(x, xa), lit(s, constant.MakeInt64(1), t), t)
		f.emit(ind, fmt.Sprintf("let %s := %s", f.lhs(s.X, scope), val))
	case *ast.DeclStmt:
		gd, ok := s.Decl.(*ast.GenDecl)
		if !ok || gd.Tok != token.VAR {
			fail(s, "unsupported declaration")
		}
		for _, sp := range gd.Specs {
			vs := sp.(*ast.ValueSpec)
			if len(vs.Values) != 0 && len(vs.Values) != len(vs.Names) {
				fail(vs, "multi-value var declaration")
			}
			var vals []string
			for i, id := range vs.Names {
				if len(vs.Values) == 0 {
					v, ok := f.g.info.Defs[id].(*types.Var)
					if !ok {
						fail(id, "cannot resolve declared variable")
					}
					vals = append(vals, zeroValue(id, v.Type()))
				} else {
					x, _ := f.expr(vs.Values[i])
					vals = append(vals, x)
				}
			}
			for i, id := range vs.Names {
				f.emit(ind, fmt.Sprintf("let %s := %s", f.lhs(id, scope), vals[i]))
			}
		}
	default:
		fail(s, "unsupported statement %T", s)
	}
}

func (f *fn) stmts(list []ast.Stmt, scope []*types.Var, ind int, c *lctx, k func(ind int)) {
	if len(list) == 0 {
		k(ind)
		return
	}
	s, rest := list[0], list[1:]
	terminal := func() {
		if len(rest) != 0 {
			fail(rest[0], "unreachable statement after %T", s)
		}
	}
	switch s := s.(type) {
	case *ast.ReturnStmt:
		terminal()
		want := f.decl.Type.Results.NumFields()
		if len(s.Results) == 0 {
			fail(s, "bare return")
		}
		if len(s.Results) != want {
			fail(s, "return of a multi-value call")
		}
		var parts []string
		atom := false
		for _, r := range s.Results {
			x, a := f.expr(r)
			parts = append(parts, x)
			atom = a
		}
		if len(parts) > 1 {
			atom = true
		}
		f.emit(ind, c.ret(tuplePat(parts), atom))
	case *ast.BranchStmt:
		terminal()
		if s.Label != nil {
			fail(s, "labelled %s", s.Tok)
		}
		switch {
		case s.Tok == token.BREAK && c.brk != nil:
			c.brk(ind)
		case s.Tok == token.CONTINUE && c.cont != nil:
			c.cont(ind)
		default:
			fail(s, "unsupported branch statement %s", s.Tok)
		}
	case *ast.BlockStmt:
		f.stmts(s.List, scope, ind, c, func(ind2 int) { f.stmts(rest, scope, ind2, c, k) })
	case *ast.IfStmt:
		f.ifStmt(s, scope, ind, c, func(ind2 int) { f.stmts(rest, scope, ind2, c, k) })
	case *ast.ForStmt:
		f.forStmt(s, scope, ind, c, func(ind2 int) { f.stmts(rest, scope, ind2, c, k) })
	default:
		f.simple(s, &scope, ind)
		f.stmts(rest, scope, ind, c, k)
	}
}

func (f *fn) cond(e ast.Expr) string {
	if !isBool(f.typeOf(e).Type) {
		fail(e, "non-boolean condition")
	}
	s, _ := f.expr(e)
	return s
}

func (f *fn) ifStmt(s *ast.IfStmt, scope []*types.Var, ind int, c *lctx, k func(ind int)) {
	if s.Init != nil {
		f.simple(s.Init, &scope, ind)
	}
	f.emit(ind, "if "+f.cond(s.Cond)+" then")
	f.stmts(s.Body.List, scope, ind+1, c, k)
	f.emit(ind, "else")
	switch el := s.Else.(type) {
	case nil:
		k(ind + 1)
	case *ast.BlockStmt:
		f.stmts(el.List, scope, ind+1, c, k)
	case *ast.IfStmt:
		f.ifStmt(el, scope, ind+1, c, k)
	default:
		fail(s.Else, "unsupported else branch %T", s.Else)
	}
}

func (f *fn) varNames(vs []*types.Var) []string {
	var out []string
	for _, v := range vs {
		out = append(out, f.lname[v])
	}
	return out
}

func (f *fn) forStmt(s *ast.ForStmt, scope []*types.Var, ind int, c *lctx, k func(ind int)) {
	if s.Init != nil {
		f.simple(s.Init, &scope, ind) // runs once, before the loop
	}
	li := f.loopHelper(s, scope)
	parts := []string{li.name}
	parts = append(parts, f.varNames(li.ro)...)
	parts = append(parts, fmt.Sprint(loopFuel))
	parts = append(parts, f.varNames(li.st)...)
	f.emit(ind, "match "+strings.Join(parts, " ")+" with")
	f.emit(ind, "| .done "+tuplePat(f.varNames(li.st))+" =>")
	k(ind + 1)
	f.emit(ind, "| .ret r => "+c.retPass)
	f.emit(ind, "| .outOfFuel => "+c.outOfFuel)
}

// loopVars computes, for the loop s entered with `scope` in scope, the state
// variables (assigned by body/post) and the read-only variables (read by
// cond/body/post, never assigned), both in declaration order.
func (f *fn) loopVars(s *ast.ForStmt, scope []*types.Var) (ro, st []*types.Var) {
	inScope := map[*types.Var]bool{}
	for _, v := range scope {
		inScope[v] = true
	}
	assigned, read := map[*types.Var]bool{}, map[*types.Var]bool{}
	target := func(e ast.Expr) {
		id, ok := unparen(e).(*ast.Ident)
		if !ok {
			fail(e, "assignment to non-variable %T", e)
		}
		if v, ok := f.g.info.Uses[id].(*types.Var); ok && inScope[v] {
			assigned[v] = true
		}
	}
	visit := func(n ast.Node) bool {
		switch n := n.(type) {
		case *ast.AssignStmt:
			for _, l := range n.Lhs {
				target(l)
			}
		case *ast.IncDecStmt:
			target(n.X)
		case *ast.CallExpr:
			if f.isErrCtor(n) {
				return false // arguments are dropped by the translation
			}
		case *ast.FuncLit:
			fail(n, "function literal")
		case *ast.Ident:
			if v, ok := f.g.info.Uses[n].(*types.Var); ok && inScope[v] {
				read[v] = true
			}
		}
		return true
	}
	if s.Cond != nil {
		ast.Inspect(s.Cond, visit)
	}
	ast.Inspect(s.Body, visit)
	if s.Post != nil {
		ast.Inspect(s.Post, visit)
	}
	for _, v := range scope {
		switch {
		case assigned[v]:
			st = append(st, v)
		case read[v]:
			ro = append(ro, v)
		}
	}
	return ro, st
}

func (f *fn) loopHelper(s *ast.ForStmt, scope []*types.Var) *loopInfo {
	if li, ok := f.loops[s]; ok {
		return li
	}
	f.nloops++
	li := &loopInfo{name: fmt.Sprintf("%s.loop%d", f.name, f.nloops)}
	li.ro, li.st = f.loopVars(s, scope)
	f.loops[s] = li

	saved := f.w
	f.w = &strings.Builder{}
	var sig, stTypes []string
	for _, v := range li.ro {
		sig = append(sig, fmt.Sprintf(" (%s : %s)", f.lname[v], leanType(s, v.Type())))
	}
	for _, v := range li.st {
		stTypes = append(stTypes, leanType(s, v.Type()))
	}
	stType := "Unit"
	if len(stTypes) == 1 {
		stType = stTypes[0]
	} else if len(stTypes) > 1 {
		stType = "(" + strings.Join(stTypes, " × ") + ")"
	}
	retT := f.retType
	if strings.Contains(retT, " ") {
		retT = "(" + retT + ")"
	}
	arrows := "Nat → "
	for _, t := range stTypes {
		arrows += t + " → "
	}
	stNames := f.varNames(li.st)
	blanks := make([]string, len(stNames))
	for i := range blanks {
		blanks[i] = "_"
	}
	f.emit(0, fmt.Sprintf("/-- the `for` loop of `%s` at %s (fuel-bounded) -/", f.name, f.g.shortPos(s.Pos())))
	f.emit(0, fmt.Sprintf("def %s%s : %sLoopOut %s %s", li.name, strings.Join(sig, ""), arrows, stType, retT))
	f.emit(1, "| "+strings.Join(append([]string{"0"}, blanks...), ", ")+" => .outOfFuel")
	f.emit(1, "| "+strings.Join(append([]string{"fuel+1"}, stNames...), ", ")+" =>")

	done := ".done " + tuplePat(stNames)
	recurse := strings.Join(append(append([]string{li.name}, f.varNames(li.ro)...), append([]string{"fuel"}, stNames...)...), " ")
	next := func(ind int) { // post statement, then the next iteration
		if s.Post != nil {
			sc := scope
			f.simple(s.Post, &sc, ind)
		}
		f.emit(ind, recurse)
	}
	inner := &lctx{
		ret:       func(e string, atom bool) string { return ".ret " + paren(e, atom) },
		retPass:   ".ret r",
		outOfFuel: ".outOfFuel",
		brk:       func(ind int) { f.emit(ind, done) },
		cont:      next,
	}
	if s.Cond != nil {
		f.emit(2, "if "+f.cond(s.Cond)+" then")
		f.stmts(s.Body.List, scope, 3, inner, next)
		f.emit(2, "else")
		f.emit(3, done)
	} else {
		f.stmts(s.Body.List, scope, 2, inner, next)
	}
	f.helpers = append(f.helpers, f.w.String())
	f.w = saved
	return li
}

func (g *gen) translate(name string) (out string, err *unsupported) {
	decl := g.targets[name]
	f := &fn{g: g, name: name, decl: decl, w: &strings.Builder{},
		loops: map[*ast.ForStmt]*loopInfo{}, names: map[string]*types.Var{}, lname: map[*types.Var]string{}}
	defer func() {
		if r := recover(); r != nil {
			u, ok := r.(unsupported)
			if !ok {
				panic(r)
			}
			err = &u
		}
	}()
	// type errors inside the function are fatal
	obj := g.info.Defs[decl.Name].(*types.Func)
	sig := obj.Type().(*types.Signature)
	if decl.Recv != nil || sig.TypeParams() != nil || sig.Variadic() {
		fail(decl, "methods, generic and variadic functions are not supported")
	}
	if decl.Body == nil {
		fail(decl, "function without body")
	}
	if sig.Results().Len() == 0 {
		fail(decl, "function without results")
	}
	for i := 0; i < sig.Results().Len(); i++ {
		if sig.Results().At(i).Name() != "" {
			fail(decl.Type.Results, "named results")
		}
	}
	f.retType = leanType(decl.Type.Results, sig.Results())

	var scope []*types.Var
	var params string
	for _, fld := range decl.Type.Params.List {
		if len(fld.Names) == 0 {
			fail(fld, "unnamed parameter")
		}
		for _, id := range fld.Names {
			v := g.info.Defs[id].(*types.Var)
			n := f.declare(id, v)
			if n != "_" {
				scope = extend(scope, v)
			}
			params += fmt.Sprintf(" (%s : %s)", n, leanType(id, v.Type()))
		}
	}
	top := &lctx{
		ret:       func(e string, atom bool) string { return e },
		retPass:   "r",
		outOfFuel: "default",
	}
	f.stmts(decl.Body.List, scope, 1, top, func(int) {
		fail(decl.Body, "control reaches the end of the function without a return")
	})
	var b strings.Builder
	for _, h := range f.helpers {
		b.WriteString(h)
		b.WriteString("\n")
	}
	goSig := types.ObjectString(obj, func(*types.Package) string { return "" })
	fmt.Fprintf(&b, "/-- Go `%s` (%s) -/\n", goSig, g.shortPos(decl.Pos()))
	fmt.Fprintf(&b, "def %s%s : %s :=\n", name, params, f.retType)
	b.WriteString(f.w.String())
	return b.String(), nil
}

// deps returns the translated functions called by decl, in source order.
func (g *gen) deps(decl *ast.FuncDecl) []string {
	var out []string
	seen := map[string]bool{}
	ast.Inspect(decl, func(n ast.Node) bool {
		if id, ok := n.(*ast.Ident); ok {
			if fo, ok := g.info.Uses[id].(*types.Func); ok {
				if name, ok := g.isTgt[fo]; ok && !seen[name] {
					seen[name] = true
					out = append(out, name)
				}
			}
		}
		return true
	})
	return out
}

// ---------------------------------------------------------------------------

func main() {
	if len(os.Args) != 3 {
		die("usage: utils2lean <path/to/utils.go> <output.lean>")
	}
	src, outPath := os.Args[1], os.Args[2]
	if err := os.Remove(outPath); err != nil && !os.IsNotExist(err) {
		die("cannot remove old output: %v", err)
	}
	src, err := filepath.Abs(src)
	if err != nil {
		die("%v", err)
	}
	dir := filepath.Dir(src)

	// parse every non-test file of the package that the default build selects
	fset := token.NewFileSet()
	ents, err := os.ReadDir(dir)
	if err != nil {
		die("%v", err)
	}
	var names []string
	for _, e := range ents {
		n := e.Name()
		if e.IsDir() || !strings.HasSuffix(n, ".go") || strings.HasSuffix(n, "_test.go") {
			continue
		}
		if filepath.Join(dir, n) != src {
			if ok, err := build.Default.MatchFile(dir, n); err != nil || !ok {
				continue
			}
		}
		names = append(names, n)
	}
	sort.Strings(names)
	var files []*ast.File
	var main *ast.File
	for _, n := range names {
		p := filepath.Join(dir, n)
		af, err := parser.ParseFile(fset, p, nil, parser.SkipObjectResolution)
		if err != nil {
			if p == src {
				die("parse error: %v", err)
			}
			fmt.Fprintf(os.Stderr, "utils2lean: warning: skipping %s: %v\n", p, err)
			continue
		}
		if p == src {
			main = af
		}
		files = append(files, af)
	}
	if main == nil {
		die("%s not found", src)
	}
	kept := files[:0]
	for _, af := range files {
		if af.Name.Name == main.Name.Name {
			kept = append(kept, af)
		}
	}
	files = kept

	g := &gen{fset: fset, file: src, targets: map[string]*ast.FuncDecl{}, isTgt: map[*types.Func]string{}}
	g.info = &types.Info{
		Types: map[ast.Expr]types.TypeAndValue{},
		Defs:  map[*ast.Ident]types.Object{},
		Uses:  map[*ast.Ident]types.Object{},
	}
	var typeErrs []types.Error
	im := &imp{src: importer.ForCompiler(fset, "source", nil).(types.ImporterFrom), dir: dir, fake: map[string]*types.Package{}}
	conf := types.Config{
		Importer: im,
		Error: func(e error) {
			if te, ok := e.(types.Error); ok {
				typeErrs = append(typeErrs, te)
			}
		},
	}
	g.pkg, _ = conf.Check(main.Name.Name, fset, files, g.info)

	// locate the target functions in utils.go
	want := map[string]bool{}
	for _, n := range targetNames {
		want[n] = true
	}
	for _, d := range main.Decls {
		if fd, ok := d.(*ast.FuncDecl); ok && fd.Recv == nil && want[fd.Name.Name] {
			g.targets[fd.Name.Name] = fd
			if fo, ok := g.info.Defs[fd.Name].(*types.Func); ok {
				g.isTgt[fo] = fd.Name.Name
			}
		}
	}
	var problems []string
	for _, n := range targetNames {
		if g.targets[n] == nil {
			problems = append(problems, fmt.Sprintf("%s: function %s: not found (as a top-level function)", src, n))
		}
	}
	// type errors: fatal inside a target function, a note elsewhere
	for _, te := range typeErrs {
		inTarget := ""
		for _, n := range targetNames {
			if d := g.targets[n]; d != nil && te.Fset == fset && d.Pos() <= te.Pos && te.Pos < d.End() {
				inTarget = n
			}
		}
		if inTarget != "" {
			problems = append(problems, fmt.Sprintf("%s: function %s: type error: %s", g.position(te.Pos), inTarget, te.Msg))
		}
	}
	if n := len(typeErrs); n > 0 {
		fmt.Fprintf(os.Stderr, "utils2lean: note: %d type error(s) outside the translated functions ignored (first: %s: %s)\n",
			n, g.position(typeErrs[0].Pos), typeErrs[0].Msg)
	}
	for _, n := range im.notes {
		fmt.Fprintln(os.Stderr, "utils2lean: note: "+n)
	}

	// dependency order: callees first, otherwise the order of targetNames
	var order []string
	state := map[string]int{}
	var visit func(n string, from []string)
	visit = func(n string, from []string) {
		switch state[n] {
		case 2:
			return
		case 1:
			problems = append(problems, fmt.Sprintf("%s: function %s: recursion (%s)", g.position(g.targets[n].Pos()), n, strings.Join(append(from, n), " -> ")))
			return
		}
		state[n] = 1
		for _, d := range g.deps(g.targets[n]) {
			if d != n {
				visit(d, append(from, n))
			} else {
				problems = append(problems, fmt.Sprintf("%s: function %s: direct recursion", g.position(g.targets[n].Pos()), n))
			}
		}
		state[n] = 2
		order = append(order, n)
	}
	for _, n := range targetNames {
		if g.targets[n] != nil {
			visit(n, nil)
		}
	}

	var body strings.Builder
	for _, n := range order {
		text, uerr := g.translate(n)
		if uerr != nil {
			problems = append(problems, fmt.Sprintf("%s: function %s: %s", g.position(uerr.pos), n, uerr.msg))
			continue
		}
		body.WriteString(text)
		body.WriteString("\n")
	}
	if len(problems) > 0 {
		for _, p := range problems {
			fmt.Fprintln(os.Stderr, "utils2lean: "+p)
		}
		os.Exit(1)
	}

	var out strings.Builder
	out.WriteString("-- GENERATED by /verif/translate/utils2lean from " + filepath.Base(src) + " — do not edit\n")
	out.WriteString("import UtreexoVerif.Go.Int\n")
	out.WriteString("set_option linter.unusedVariables false\n")
	out.WriteString("namespace UtreexoVerif.Gen\n")
	out.WriteString("open UtreexoVerif UtreexoVerif.GoInt\n\n")
	out.WriteString(body.String())
	out.WriteString("end UtreexoVerif.Gen\n")
	if err := os.MkdirAll(filepath.Dir(outPath), 0o755); err != nil {
		die("%v", err)
	}
	if err := os.WriteFile(outPath, []byte(out.String()), 0o644); err != nil {
		die("%v", err)
	}
}
