//go:build !allfuncs

package main

import "math/rand"

// extra is a no-op: the unexported functions are not reachable from outside /repo.
func extra(*rand.Rand, func() uint64) {}
