/-
  Differential check of the generated `UtreexoVerif.Gen` definitions against reference
  lines printed by the Go program in this directory (`Name arg1 arg2 .. = r1 r2 ..`).

    cd /verif/lean && lake build UtreexoVerif.Gen.Utils && lake env lean --run <this file> <lines file>

  Exit code 0 iff every line is understood and agrees.
-/
import UtreexoVerif.Gen.Utils
open UtreexoVerif UtreexoVerif.GoInt UtreexoVerif.Gen

def u64 (n : Nat) : U64 := BitVec.ofNat 64 n
def u8 (n : Nat) : U8 := BitVec.ofNat 8 n
def bn (b : Bool) : Nat := if b then 1 else 0
def bb (n : Nat) : Bool := n != 0

/-- Evaluate one generated function; `none` if the name/arity is unknown. -/
def eval (name : String) (a : List Nat) : Option (List Nat) :=
  match name, a with
  | "LeftChild", [p, r] => some [(LeftChild (u64 p) (u8 r)).toNat]
  | "RightChild", [p, r] => some [(RightChild (u64 p) (u8 r)).toNat]
  | "Parent", [p, r] => some [(Parent (u64 p) (u8 r)).toNat]
  | "DetectRow", [p, r] => some [(DetectRow (u64 p) (u8 r)).toNat]
  | "TreeRows", [n] => some [(TreeRows (u64 n)).toNat]
  | "ChildMany", [p, d, r] =>
    let (v, e) := ChildMany (u64 p) (u8 d) (u8 r); some [v.toNat, bn e]
  | "ParentMany", [p, d, r] =>
    let (v, e) := ParentMany (u64 p) (u8 d) (u8 r); some [v.toNat, bn e]
  | "DetectOffset", [p, n] =>
    let (x, y, z, e) := DetectOffset (u64 p) (u64 n); some [x.toNat, y.toNat, z.toNat, bn e]
  -- unexported functions (only present in lines produced by run_all.sh)
  | "sibling", [p] => some [(sibling (u64 p)).toNat]
  | "leftSib", [p] => some [(leftSib (u64 p)).toNat]
  | "rightSib", [p] => some [(rightSib (u64 p)).toNat]
  | "isLeftNiece", [p] => some [bn (isLeftNiece (u64 p))]
  | "rootPosition", [l, h, r] => some [(rootPosition (u64 l) (u8 h) (u8 r)).toNat]
  | "rootExistsOnRow", [n, h] => some [bn (rootExistsOnRow (u64 n) (u8 h))]
  | "removeBit", [v, b] => some [(removeBit (u64 v) (u64 b)).toNat]
  | "addBit", [v, p, b] => some [(addBit (u64 v) (u64 p) (bb b)).toNat]
  | "calcNextPosition", [p, d, r] =>
    let (v, e) := calcNextPosition (u64 p) (u64 d) (u8 r); some [v.toNat, bn e]
  | "calcPrevPosition", [p, d, r] => some [(calcPrevPosition (u64 p) (u64 d) (u8 r)).toNat]
  | "getLowestRoot", [n, r] => some [(getLowestRoot (u64 n) (u8 r)).toNat]
  | "numRoots", [n] => some [(numRoots (u64 n)).toNat]
  | "maxLeafCount", [r] => some [(maxLeafCount (u8 r)).toNat]
  | "maxPosition", [r] => some [(maxPosition (u8 r)).toNat]
  | "startPositionAtRow", [h, r] => some [(startPositionAtRow (u8 h) (u8 r)).toNat]
  | "maxPossiblePosAtRow", [h, r] => some [(maxPossiblePosAtRow (u8 h) (u8 r)).toNat]
  | "maxPositionAtRow", [h, r, n] =>
    let (v, e) := maxPositionAtRow (u8 h) (u8 r) (u64 n); some [v.toNat, bn e]
  | "translatePos", [p, f, t] => some [(translatePos (u64 p) (u8 f) (u8 t)).toNat]
  | "isRootPosition", [p, n] => some [bn (isRootPosition (u64 p) (u64 n))]
  | "isRootPositionOnRow", [p, n, h] => some [bn (isRootPositionOnRow (u64 p) (u64 n) (u8 h))]
  | "isRootPositionTotalRows", [p, n, r] => some [bn (isRootPositionTotalRows (u64 p) (u64 n) (u8 r))]
  | "isRootPositionOnRowTotalRows", [p, n, h, r] =>
    some [bn (isRootPositionOnRowTotalRows (u64 p) (u64 n) (u8 h) (u8 r))]
  | "isAncestor", [h, l, r] => some [bn (isAncestor (u64 h) (u64 l) (u8 r))]
  | "inForest", [p, n, r] => some [bn (inForest (u64 p) (u64 n) (u8 r))]
  | "subtreeRow", [n, s] => some [(subtreeRow (u64 n) (u8 s)).toNat]
  | "getRootPosition", [p, n, r] =>
    let (v, e) := getRootPosition (u64 p) (u64 n) (u8 r); some [v.toNat, bn e]
  | _, _ => none

def nats (ws : List String) : Option (List Nat) := ws.mapM String.toNat?

def main (args : List String) : IO UInt32 := do
  let [path] := args | do IO.eprintln "usage: Check.lean <lines file>"; return 2
  let text ← IO.FS.readFile path
  let mut total := 0
  let mut bad := 0
  let mut counts : List (String × Nat) := []
  for line in text.splitOn "\n" do
    if line.isEmpty then continue
    total := total + 1
    let report (msg : String) : IO Unit := IO.println s!"MISMATCH {line}   -- {msg}"
    match line.splitOn " = " with
    | [lhs, rhs] =>
      match lhs.splitOn " ", nats (rhs.splitOn " ") with
      | name :: argWords, some want =>
        match nats argWords with
        | some argv =>
          match eval name argv with
          | some got =>
            counts := match counts.find? (·.1 == name) with
              | some _ => counts.map fun (n, c) => if n == name then (n, c + 1) else (n, c)
              | none => counts ++ [(name, 1)]
            if got != want then
              bad := bad + 1
              if bad ≤ 40 then report s!"Lean gives {got}"
          | none => bad := bad + 1; report "unknown function or arity"
        | none => bad := bad + 1; report "unparsable arguments"
      | _, _ => bad := bad + 1; report "unparsable line"
    | _ => bad := bad + 1; report "unparsable line"
  for (n, c) in counts do
    IO.println s!"  {n}: {c} lines"
  IO.println s!"checked {total} lines, {bad} mismatches"
  return if bad == 0 then 0 else 1
