#!/bin/sh
# Differential test of ALL translated functions (exported and unexported).
# Unexported functions are reached through wrappers added to a scratch COPY of the
# package (nothing under the repo is touched). Usage: run_all.sh [repo dir]
set -eu
export GOFLAGS=-mod=mod GOPROXY=off GOSUMDB=off GOTOOLCHAIN=local
here=$(cd "$(dirname "$0")" && pwd)
repo=${1:-/repo}
tmp=$(mktemp -d)
trap 'rm -rf "$tmp"' EXIT
mkdir "$tmp/utreexo" "$tmp/prog"
for f in "$repo"/*.go; do
  case "$f" in *_test.go) ;; *) cp "$f" "$tmp/utreexo/" ;; esac
done
cp "$repo/go.mod" "$repo/go.sum" "$tmp/utreexo/"
cp "$here/export_wrappers.go.tmpl" "$tmp/utreexo/zz_difftest_export.go"
cp "$here"/*.go "$here/go.sum" "$tmp/prog/"
sed "s#=> /repo#=> $tmp/utreexo#" "$here/go.mod" > "$tmp/prog/go.mod"
(cd "$tmp/prog" && go run -tags allfuncs . "$tmp/lines.txt")
cd /verif/lean
lake build UtreexoVerif.Gen.Utils >/dev/null
lake env lean --run "$here/Check.lean" "$tmp/lines.txt"
