// difftest prints reference results of the exported integer functions of
// utreexo's utils.go, one per line, as `Name arg1 arg2 .. = r1 r2 ..`
// (errors as 0/1, values exactly as Go returns them). The lines are checked
// against the generated Lean definitions by Check.lean.
//
//	go run . > lines.txt        (or: go run . lines.txt)
package main

import (
	"bufio"
	"fmt"
	"math/rand"
	"os"

	"github.com/utreexo/utreexo"
)

var w *bufio.Writer

func b2i(err error) int {
	if err != nil {
		return 1
	}
	return 0
}

func leftChild(p uint64, r uint8) {
	fmt.Fprintf(w, "LeftChild %d %d = %d\n", p, r, utreexo.LeftChild(p, r))
}
func rightChild(p uint64, r uint8) {
	fmt.Fprintf(w, "RightChild %d %d = %d\n", p, r, utreexo.RightChild(p, r))
}
func parent(p uint64, r uint8) { fmt.Fprintf(w, "Parent %d %d = %d\n", p, r, utreexo.Parent(p, r)) }
func detectRow(p uint64, r uint8) {
	fmt.Fprintf(w, "DetectRow %d %d = %d\n", p, r, utreexo.DetectRow(p, r))
}
func treeRows(n uint64) { fmt.Fprintf(w, "TreeRows %d = %d\n", n, utreexo.TreeRows(n)) }
func childMany(p uint64, d, r uint8) {
	v, err := utreexo.ChildMany(p, d, r)
	fmt.Fprintf(w, "ChildMany %d %d %d = %d %d\n", p, d, r, v, b2i(err))
}
func parentMany(p uint64, d, r uint8) {
	v, err := utreexo.ParentMany(p, d, r)
	fmt.Fprintf(w, "ParentMany %d %d %d = %d %d\n", p, d, r, v, b2i(err))
}

// detectOffset skips inputs on which the Go code panics.
func detectOffset(p, n uint64) {
	defer func() { recover() }()
	a, b, c, err := utreexo.DetectOffset(p, n)
	fmt.Fprintf(w, "DetectOffset %d %d = %d %d %d %d\n", p, n, a, b, c, b2i(err))
}

func main() {
	out := os.Stdout
	if len(os.Args) > 1 {
		f, err := os.Create(os.Args[1])
		if err != nil {
			fmt.Fprintln(os.Stderr, err)
			os.Exit(1)
		}
		defer f.Close()
		out = f
	}
	w = bufio.NewWriter(out)
	defer w.Flush()

	// small exhaustive values
	for r := uint8(0); r <= 6; r++ {
		for p := uint64(0); p <= 200; p++ {
			leftChild(p, r)
			rightChild(p, r)
			parent(p, r)
			detectRow(p, r)
		}
		for d := uint8(0); d <= 8; d++ {
			for p := uint64(0); p <= 130; p++ {
				childMany(p, d, r)
				parentMany(p, d, r)
			}
		}
	}
	for n := uint64(0); n <= 70; n++ {
		treeRows(n)
		for p := uint64(0); n >= 1 && p < 2*n; p++ {
			detectOffset(p, n)
		}
	}

	// boundary and random 64-bit values
	rng := rand.New(rand.NewSource(20260928))
	r64 := func() uint64 {
		switch rng.Intn(4) {
		case 0:
			return rng.Uint64()
		case 1:
			return rng.Uint64() >> uint(rng.Intn(64))
		case 2:
			return ^uint64(0) - uint64(rng.Intn(3))
		default:
			return (uint64(1) << uint(rng.Intn(64))) + uint64(rng.Intn(3)) - 1
		}
	}
	for i := 0; i <= 64; i++ {
		for _, d := range []uint64{0, 1, 2} {
			treeRows((uint64(1) << uint(i%64)) - 1 + d)
		}
	}
	treeRows(^uint64(0))
	for i := 0; i < 400; i++ {
		row := uint8(rng.Intn(64))
		if i%10 == 0 {
			row = uint8(rng.Intn(256)) // rows past 63 as well
		}
		leftChild(r64(), row)
		rightChild(r64(), row)
		parent(r64(), row)
		detectRow(r64(), row)
		treeRows(r64())
		p := r64()
		if row < 63 { // a position that exists in a forest with `row` rows
			p &= (uint64(2) << row) - 1
		}
		detectRow(p, row)
		many := uint8(rng.Intn(71))
		rows := uint8(rng.Intn(71))
		childMany(r64(), many, rows)
		parentMany(r64(), many, rows)
		if many <= rows {
			childMany(r64(), rows-many, rows)
			parentMany(r64(), rows-many, rows)
		}
	}
	extra(rng, r64) // unexported functions; a no-op unless built with -tags allfuncs (see run_all.sh)
	for i := 0; i < 400; i++ {
		n := (rng.Uint64() >> uint(2+rng.Intn(62))) | 1
		if i%2 == 0 {
			n = rng.Uint64()>>uint(2+rng.Intn(62)) + 1
		}
		p := rng.Uint64() % (2 * n)
		detectOffset(p, n)
	}
}
