//go:build allfuncs

package main

import (
	"fmt"
	"math/rand"

	u "github.com/utreexo/utreexo"
)

func bi(b bool) int {
	if b {
		return 1
	}
	return 0
}

// extra prints reference lines for the unexported functions through the X_ wrappers that
// run_all.sh adds to a scratch copy of the package. Inputs on which the Go code panics
// are skipped; inputs on which a Go loop cannot terminate are not generated
// (getLowestRoot / getRootPosition with 255 rows).
func extra(rng *rand.Rand, r64 func() uint64) {
	try := func(f func()) {
		defer func() { recover() }()
		f()
	}
	p := func(format string, args ...interface{}) { fmt.Fprintf(w, format, args...) }

	unary := func(x uint64) {
		p("sibling %d = %d\n", x, u.X_sibling(x))
		p("leftSib %d = %d\n", x, u.X_leftSib(x))
		p("rightSib %d = %d\n", x, u.X_rightSib(x))
		p("isLeftNiece %d = %d\n", x, bi(u.X_isLeftNiece(x)))
		p("numRoots %d = %d\n", x, u.X_numRoots(x))
	}
	rowOnly := func(r uint8) {
		p("maxLeafCount %d = %d\n", r, u.X_maxLeafCount(r))
		p("maxPosition %d = %d\n", r, u.X_maxPosition(r))
	}
	rootPosition := func(l uint64, h, r uint8) { p("rootPosition %d %d %d = %d\n", l, h, r, u.X_rootPosition(l, h, r)) }
	rootExists := func(n uint64, h uint8) { p("rootExistsOnRow %d %d = %d\n", n, h, bi(u.X_rootExistsOnRow(n, h))) }
	bitsOps := func(v, b uint64) {
		p("removeBit %d %d = %d\n", v, b, u.X_removeBit(v, b))
		p("addBit %d %d 0 = %d\n", v, b, u.X_addBit(v, b, false))
		p("addBit %d %d 1 = %d\n", v, b, u.X_addBit(v, b, true))
	}
	moves := func(a, b uint64, r uint8) {
		try(func() {
			v, err := u.X_calcNextPosition(a, b, r)
			p("calcNextPosition %d %d %d = %d %d\n", a, b, r, v, b2i(err))
		})
		try(func() { p("calcPrevPosition %d %d %d = %d\n", a, b, r, u.X_calcPrevPosition(a, b, r)) })
		try(func() { p("isAncestor %d %d %d = %d\n", a, b, r, bi(u.X_isAncestor(a, b, r))) })
	}
	lowest := func(n uint64, r uint8) {
		if r == 255 {
			return // `row <= 255` never fails for a uint8
		}
		p("getLowestRoot %d %d = %d\n", n, r, u.X_getLowestRoot(n, r))
	}
	rowPair := func(h, r uint8) {
		p("startPositionAtRow %d %d = %d\n", h, r, u.X_startPositionAtRow(h, r))
		p("maxPossiblePosAtRow %d %d = %d\n", h, r, u.X_maxPossiblePosAtRow(h, r))
	}
	maxAtRow := func(h, r uint8, n uint64) {
		v, err := u.X_maxPositionAtRow(h, r, n)
		p("maxPositionAtRow %d %d %d = %d %d\n", h, r, n, v, b2i(err))
	}
	translate := func(x uint64, f, t uint8) { p("translatePos %d %d %d = %d\n", x, f, t, u.X_translatePos(x, f, t)) }
	isRoot := func(x, n uint64) { p("isRootPosition %d %d = %d\n", x, n, bi(u.X_isRootPosition(x, n))) }
	isRootOnRow := func(x, n uint64, h uint8) {
		p("isRootPositionOnRow %d %d %d = %d\n", x, n, h, bi(u.X_isRootPositionOnRow(x, n, h)))
	}
	isRootTotal := func(x, n uint64, r uint8) {
		p("isRootPositionTotalRows %d %d %d = %d\n", x, n, r, bi(u.X_isRootPositionTotalRows(x, n, r)))
	}
	isRootOnRowTotal := func(x, n uint64, h, r uint8) {
		p("isRootPositionOnRowTotalRows %d %d %d %d = %d\n", x, n, h, r, bi(u.X_isRootPositionOnRowTotalRows(x, n, h, r)))
	}
	inForest := func(x, n uint64, r uint8) { p("inForest %d %d %d = %d\n", x, n, r, bi(u.X_inForest(x, n, r))) }
	subtreeRow := func(n uint64, s uint8) { p("subtreeRow %d %d = %d\n", n, s, u.X_subtreeRow(n, s)) }
	getRoot := func(x, n uint64, r uint8) {
		if r == 255 {
			return // `h <= 255` never fails for a uint8
		}
		v, err := u.X_getRootPosition(x, n, r)
		p("getRootPosition %d %d %d = %d %d\n", x, n, r, v, b2i(err))
	}

	// small exhaustive values
	for x := uint64(0); x <= 200; x++ {
		unary(x)
		for b := uint64(0); b <= 9; b++ {
			bitsOps(x, b)
		}
		for s := uint8(0); s <= 8; s++ {
			subtreeRow(x, s)
		}
	}
	for r := uint8(0); r <= 9; r++ {
		rowOnly(r)
		for h := uint8(0); h <= 9; h++ {
			rowPair(h, r)
			for n := uint64(0); n <= 70; n++ {
				maxAtRow(h, r, n)
				if r <= 7 && h <= 8 {
					rootPosition(n, h, r)
				}
			}
		}
		for n := uint64(0); n <= 70; n++ {
			rootExists(n, r)
			lowest(n, r)
		}
	}
	for r := uint8(0); r <= 4; r++ {
		for a := uint64(0); a <= 40; a++ {
			for b := uint64(0); b <= 40; b++ {
				moves(a, b, r)
			}
		}
	}
	for x := uint64(0); x <= 130; x++ {
		for f := uint8(0); f <= 6; f++ {
			for t := uint8(0); t <= 6; t++ {
				translate(x, f, t)
			}
		}
		for n := uint64(0); n <= 70; n++ {
			isRoot(x, n)
		}
	}
	for x := uint64(0); x <= 70; x++ {
		for n := uint64(0); n <= 36; n++ {
			for r := uint8(0); r <= 7; r++ {
				isRootOnRow(x, n, r)
				isRootTotal(x, n, r)
				inForest(x, n, r)
				if r <= 6 {
					getRoot(x, n, r)
				}
				if x <= 30 && n <= 16 && r <= 6 {
					for h := uint8(0); h <= 5; h++ {
						isRootOnRowTotal(x, n, h, r)
					}
				}
			}
		}
	}

	// random 64-bit values, rows mostly up to 63 and sometimes up to 255
	row := func() uint8 {
		if rng.Intn(8) == 0 {
			return uint8(rng.Intn(256))
		}
		return uint8(rng.Intn(65))
	}
	// a position that exists in a forest with r rows
	posIn := func(r uint8) uint64 {
		if r >= 63 {
			return r64()
		}
		return r64() & ((uint64(2) << r) - 1)
	}
	for i := 0; i < 400; i++ {
		r := row()
		unary(r64())
		rowOnly(r)
		rootPosition(r64(), row(), r)
		rootExists(r64(), r)
		bitsOps(r64(), uint64(rng.Intn(70)))
		// a uint64 shift count: kept below 2^16 because evaluating BitVec `<<<` in Lean
		// materialises `x.toNat <<< s` as a Nat before truncating (the value is still 0)
		bitsOps(r64(), r64()>>48)
		moves(r64(), r64(), r)
		moves(posIn(r), posIn(r), r)
		lowest(r64(), r)
		rowPair(row(), r)
		h := uint8(0)
		if r > 0 {
			h = uint8(rng.Intn(int(r) + 1))
		}
		rowPair(h, r)
		maxAtRow(row(), r, r64())
		maxAtRow(h, r, r64())
		translate(r64(), r, row())
		translate(posIn(r), r, row())
		n := r64()
		tr := u.TreeRows(n)
		isRoot(r64(), n)
		isRoot(posIn(tr), n)
		isRootOnRow(posIn(tr), n, row())
		isRootTotal(posIn(r), n, r)
		isRootOnRowTotal(posIn(r), n, h, r)
		inForest(r64(), r64(), r)
		inForest(posIn(r), n, r)
		subtreeRow(n, uint8(rng.Intn(70)))
		getRoot(posIn(r), n, r)
		getRoot(posIn(tr), n, tr)
		// genuine positions: walk up from a leaf so that roots and ancestors are hit
		if n > 0 {
			leaf := r64() % n
			up := uint8(0)
			if tr > 0 {
				up = uint8(rng.Intn(int(tr) + 1))
			}
			anc, _ := u.ParentMany(leaf, up, tr)
			isRoot(anc, n)
			isRootTotal(anc, n, tr)
			getRoot(leaf, n, tr)
			getRoot(anc, n, tr)
			inForest(anc, n, tr)
			moves(anc, leaf, tr)
			moves(leaf, anc, tr)
			moves(leaf, u.X_sibling(anc), tr)
		}
	}
}
