package main

import (
	"go/ast"
	"go/token"
	"go/types"
	"strings"
)

// analyze recomputes the summary of one function from the current summaries of its callees.
// Returns true if the summary changed.
func (a *an) analyze(f *fnInfo) bool {
	oldRes := append([]Prov(nil), f.results...)
	oldWrites := f.writes
	c := &fctx{a: a, f: f}
	for pass := 0; pass < 50; pass++ {
		c.changed = false
		f.sites = f.sites[:0]
		f.calls = f.calls[:0]
		c.walkBody(f.decl.Body)
		// named results
		sig := f.obj.Type().(*types.Signature)
		for i := 0; i < sig.Results().Len(); i++ {
			rv := sig.Results().At(i)
			if rv.Name() != "" && rv.Name() != "_" {
				c.addResult(i, f.vars[rv])
			}
		}
		if !c.changed {
			break
		}
	}
	changed := f.writes != oldWrites
	for i := range f.results {
		if f.results[i] != oldRes[i] {
			changed = true
		}
	}
	return changed
}

func (c *fctx) addResult(i int, p Prov) {
	if i >= len(c.f.results) || !c.f.resRef[i] {
		return
	}
	if c.f.results[i]|p != c.f.results[i] {
		c.f.results[i] |= p
		c.changed = true
	}
}

func (c *fctx) walkBody(body ast.Node) {
	ast.Inspect(body, func(n ast.Node) bool {
		switch x := n.(type) {
		case *ast.FuncLit:
			// closure: analysed inline; its reference-carrying parameters are unknown
			if x.Type.Params != nil {
				for _, fld := range x.Type.Params.List {
					for _, nm := range fld.Names {
						if o := c.info().Defs[nm]; o != nil {
							c.addVar(o, AUnknown)
						}
					}
				}
			}
			c.depth++
			c.walkBody(x.Body)
			c.depth--
			return false
		case *ast.AssignStmt:
			c.assignStmt(x)
		case *ast.IncDecStmt:
			if sl, ok := c.storeTarget(x.X); ok {
				c.addSite("indexStore", x, sl, c.prov(sl), 0)
			}
		case *ast.RangeStmt:
			if x.Value != nil {
				c.assign(x.Value, c.prov(x.X), x, false)
			}
			if x.Key != nil {
				if _, isMap := under(c.typeOf(x.X)).(*types.Map); isMap {
					c.assign(x.Key, c.prov(x.X), x, false)
				}
			}
		case *ast.ValueSpec:
			if len(x.Values) == 1 && len(x.Names) > 1 {
				if call, ok := x.Values[0].(*ast.CallExpr); ok {
					rs := c.callResults(call)
					for i, nm := range x.Names {
						if i < len(rs) {
							c.addVar(c.info().Defs[nm], rs[i])
						}
					}
				}
			} else {
				for i, nm := range x.Names {
					if i < len(x.Values) {
						c.addVar(c.info().Defs[nm], c.prov(x.Values[i]))
					}
				}
			}
		case *ast.ReturnStmt:
			if c.depth == 0 {
				if len(x.Results) == 1 && c.f.nres > 1 {
					if call, ok := x.Results[0].(*ast.CallExpr); ok {
						for i, p := range c.callResults(call) {
							c.addResult(i, p)
						}
					}
				} else {
					for i, r := range x.Results {
						c.addResult(i, c.prov(r))
					}
				}
			}
		case *ast.CallExpr:
			c.visitCall(x)
		case *ast.UnaryExpr:
			if x.Op == token.AND {
				if sl, ok := c.storeTarget(x.X); ok {
					// &s[i]: a pointer into the backing array escapes
					c.addSite("addrOf", x, sl, c.prov(sl), 0)
				}
			}
		case *ast.Ident:
			// call-graph edge for every reference to a function of the package
			if fo, ok := c.info().Uses[x].(*types.Func); ok {
				if g := c.a.lookup(fo); g != nil {
					c.f.refs[g] = true
				} else if fo.Pkg() == c.a.l.pkg {
					if sig, ok := fo.Type().(*types.Signature); ok && sig.Recv() != nil && types.IsInterface(sig.Recv().Type()) {
						for _, g := range c.a.implsOf(fo) {
							c.f.refs[g] = true
						}
					}
				}
			}
		}
		return true
	})
}

func (c *fctx) assignStmt(s *ast.AssignStmt) {
	if s.Tok != token.ASSIGN && s.Tok != token.DEFINE {
		// op-assign: x[i] += v
		for _, l := range s.Lhs {
			if sl, ok := c.storeTarget(l); ok {
				c.addSite("indexStore", s, sl, c.prov(sl), 0)
			}
		}
		return
	}
	if len(s.Rhs) == 1 && len(s.Lhs) > 1 {
		switch r := s.Rhs[0].(type) {
		case *ast.CallExpr:
			rs := c.callResults(r)
			for i, l := range s.Lhs {
				if i < len(rs) {
					c.assign(l, rs[i], s, true)
				}
			}
		default: // v, ok := m[k] / x.(T) / <-ch
			c.assign(s.Lhs[0], c.prov(r), s, true)
		}
		return
	}
	// evaluate all right-hand sides first (a, b = b, a)
	ps := make([]Prov, len(s.Rhs))
	for i, r := range s.Rhs {
		ps[i] = c.prov(r)
	}
	for i, l := range s.Lhs {
		if i < len(ps) {
			c.assign(l, ps[i], s, true)
		}
	}
}

// assign records the effect of `lhs = <value of provenance rp>`.
func (c *fctx) assign(lhs ast.Expr, rp Prov, at ast.Node, storeSites bool) {
	for {
		if p, ok := lhs.(*ast.ParenExpr); ok {
			lhs = p.X
			continue
		}
		break
	}
	if id, ok := lhs.(*ast.Ident); ok {
		if id.Name != "_" {
			c.addVar(c.obj(id), rp)
		}
		return
	}
	if storeSites {
		if sl, ok := c.storeTarget(lhs); ok {
			c.addSite("indexStore", at, sl, c.prov(sl), 0)
		}
	}
	t := c.typeOf(lhs)
	if t != nil && !carriesRef(t) {
		return
	}
	// weak update of the root variable, and a possible retention of a caller's reference
	c.addVar(c.rootVar(lhs), rp)
	dest := c.storageProv(lhs)
	if rp&(paramMask|AUnknown) != 0 && dest&(paramMask|AUnknown|AField) != 0 {
		c.addSite("retain", at, lhs, rp, dest)
	}
}

var extWriters = map[string]struct {
	kind string
	arg  int
}{
	"sort.Slice": {"sortInPlace", 0}, "sort.SliceStable": {"sortInPlace", 0}, "sort.Ints": {"sortInPlace", 0},
	"sort.Strings": {"sortInPlace", 0}, "sort.Float64s": {"sortInPlace", 0},
	"slices.Sort": {"sortInPlace", 0}, "slices.SortFunc": {"sortInPlace", 0}, "slices.SortStableFunc": {"sortInPlace", 0},
	"slices.Reverse": {"extWrite", 0}, "slices.Delete": {"extWrite", 0}, "slices.DeleteFunc": {"extWrite", 0},
	"slices.Insert": {"extWrite", 0}, "slices.Compact": {"extWrite", 0}, "slices.CompactFunc": {"extWrite", 0},
	"slices.Replace": {"extWrite", 0}, "slices.Grow": {"extWrite", 0},
	"io.ReadFull": {"extWrite", 1}, "io.ReadAtLeast": {"extWrite", 1}, "rand.Read": {"extWrite", 0},
}

// external functions that only read their arguments
func extReader(name string) bool {
	pkg := name
	if i := strings.Index(name, "."); i >= 0 {
		pkg = name[:i]
	}
	base := name[strings.LastIndex(name, ".")+1:]
	switch pkg {
	case "fmt", "hex", "strings", "strconv", "errors", "bits", "math", "sha512", "sha256":
		return true
	case "slices":
		switch base {
		case "Index", "IndexFunc", "Contains", "ContainsFunc", "Equal", "BinarySearch", "BinarySearchFunc", "Clone", "IsSorted", "IsSortedFunc", "Max", "Min":
			return true
		}
	case "sort":
		switch base {
		case "Search", "SearchInts", "IsSorted", "SliceIsSorted":
			return true
		}
	}
	switch base {
	case "Write", "WriteString", "WriteByte", "Uint16", "Uint32", "Uint64", "Error", "String":
		return true // io.Writer.Write must not modify its argument (documented contract)
	}
	return false
}

func (c *fctx) visitCall(call *ast.CallExpr) {
	cal := c.resolve(call)
	switch cal.kind {
	case kConv:
		return
	case kBuiltin:
		switch cal.name {
		case "append":
			if len(call.Args) == 0 || isNilExpr(c, call.Args[0]) {
				return
			}
			base := call.Args[0]
			c.addSite("appendBase", call, base, c.prov(base), 0)
			// elements that carry references are retained by the destination
			var ep Prov
			for _, a := range call.Args[1:] {
				ep |= c.prov(a)
			}
			if call.Ellipsis.IsValid() && len(call.Args) == 2 {
				if sl, ok := under(c.typeOf(call.Args[1])).(*types.Slice); ok && !carriesRef(sl.Elem()) {
					ep = 0
				}
			}
			bp := c.prov(base)
			if ep&(paramMask|AUnknown) != 0 && bp&(paramMask|AUnknown|AField) != 0 {
				c.addSite("retain", call, base, ep, bp)
			}
		case "copy":
			if len(call.Args) > 0 {
				c.addSite("copyDst", call, call.Args[0], c.prov(call.Args[0]), 0)
			}
		case "clear":
			if len(call.Args) > 0 {
				if _, isSl := under(c.typeOf(call.Args[0])).(*types.Slice); isSl {
					c.addSite("extWrite", call, call.Args[0], c.prov(call.Args[0]), 0)
				}
			}
		}
		return
	case kFn, kIface:
		for _, f := range cal.fns {
			args := c.argProvs(call, cal, f)
			c.f.calls = append(c.f.calls, binding{callee: f, args: args})
			c.f.refs[f] = true
			w := subst(f.writes, args) & paramMask
			if c.f.writes|w != c.f.writes {
				c.f.writes |= w
				c.changed = true
			}
		}
		return
	case kExt:
		if cal.name == "sort.Sort" || cal.name == "sort.Stable" || cal.name == "sort.Reverse" {
			if len(call.Args) == 1 && c.sortInterfaceCall(call, call.Args[0]) {
				return
			}
			if len(call.Args) == 1 {
				c.addSite("sortInPlace", call, call.Args[0], c.prov(call.Args[0])|AUnknown, 0)
			}
			return
		}
		if w, ok := extWriters[cal.name]; ok {
			if w.arg < len(call.Args) {
				c.addSite(w.kind, call, call.Args[w.arg], c.prov(call.Args[w.arg]), 0)
			}
			return
		}
		base := cal.name[strings.LastIndex(cal.name, ".")+1:]
		switch base {
		case "PutUint16", "PutUint32", "PutUint64", "Read", "ReadAt":
			if len(call.Args) > 0 {
				c.addSite("extWrite", call, call.Args[0], c.prov(call.Args[0]), 0)
			}
			return
		case "Sum": // hash.Hash.Sum(b) appends to b
			if len(call.Args) > 0 && !isNilExpr(c, call.Args[0]) {
				c.addSite("appendBase", call, call.Args[0], c.prov(call.Args[0]), 0)
			}
			return
		}
		if extReader(cal.name) {
			return
		}
		fallthrough
	default: // unknown external function, or a call through a function value
		kind := "extCall"
		if cal.kind != kExt {
			kind = "dynCall"
		}
		for _, a := range call.Args {
			if p := c.prov(a); p&^AFresh != 0 {
				c.addSite(kind, call, a, p, 0)
			}
		}
	}
}

// sortInterfaceCall binds sort.Sort(x) to the Len/Less/Swap methods of x's type.
func (c *fctx) sortInterfaceCall(call *ast.CallExpr, x ast.Expr) bool {
	if inner, ok := x.(*ast.CallExpr); ok { // sort.Sort(sort.Reverse(x))
		if cal := c.resolve(inner); cal.kind == kExt && cal.name == "sort.Reverse" && len(inner.Args) == 1 {
			x = inner.Args[0]
		}
	}
	t := c.typeOf(x)
	if t == nil || types.IsInterface(t) {
		return false
	}
	found := 0
	for _, name := range []string{"Len", "Less", "Swap"} {
		o, _, _ := types.LookupFieldOrMethod(t, true, c.a.l.pkg, name)
		fo, ok := o.(*types.Func)
		if !ok {
			return false
		}
		f := c.a.lookup(fo)
		if f == nil {
			return false
		}
		args := make([]Prov, len(f.params))
		if len(args) > 0 {
			args[0] = c.prov(x)
		}
		c.f.calls = append(c.f.calls, binding{callee: f, args: args})
		c.f.refs[f] = true
		w := subst(f.writes, args) & paramMask
		if c.f.writes|w != c.f.writes {
			c.f.writes |= w
			c.changed = true
		}
		found++
	}
	return found == 3
}
