// Package sample is the self-test input of the ownership translator: each entry point
// exercises one provenance rule; main_test.go lists the expected labels.
package sample

import "sort"

type Stump struct{ Roots []int }
type Proof struct{ Targets []uint64 }
type pair struct{ a, b []uint64 }

func (p pair) Len() int           { return len(p.a) }
func (p pair) Less(i, j int) bool { return p.a[i] < p.a[j] }
func (p pair) Swap(i, j int) {
	p.a[i], p.a[j] = p.a[j], p.a[i]
	p.b[i], p.b[j] = p.b[j], p.b[i]
}

func copyOf(xs []uint64) []uint64 {
	c := make([]uint64, len(xs))
	copy(c, xs)
	return c
}

func helperA(xs []uint64) { xs[0] = 1 }
func helperB(xs []uint64) { xs[0] = 1 }

func DirectStore(xs []uint64)          { xs[0] = 7 }
func CopyThenStore(xs []uint64)        { c := copyOf(xs); c[0] = 7 }
func AppendSpare(xs []uint64) []uint64 { return append(xs, 1) }
func AppendNil(xs []uint64) []uint64   { return append([]uint64(nil), xs...) }
func ViaHelperFresh(xs []uint64)       { helperA(copyOf(xs)) }
func ViaHelperParam(xs []uint64)       { helperB(xs[1:]) }
func SortIface(a, b []uint64)          { sort.Sort(pair{a, b}) }
func (s *Stump) StateWrite(v int)      { s.Roots[0] = v; s.Roots = append(s.Roots, v) }
func (s *Stump) Retain(xs []int)       { s.Roots = xs }
func (p *Proof) RecvWrite()            { p.Targets[0] = 1 }
func Closure(xs []uint64)              { f := func() { xs[0] = 1 }; f() }
func SliceOfSlice(xs []uint64)         { y := xs[1:3]; z := y[:1]; z[0] = 2 }
func StructField(p Proof)              { q := p; q.Targets[0] = 1 }
func FreshStruct(p Proof)              { q := Proof{Targets: copyOf(p.Targets)}; q.Targets[0] = 1 }
func SortSlice(xs []uint64)            { sort.Slice(xs, func(i, j int) bool { return xs[i] < xs[j] }) }
func LocalArray(h [4]byte)             { var m [4]byte; copy(m[:], h[:]) }
func Unreachable(xs []uint64)          { xs[0] = 9 }
func Generic[E any](a []E, i int) []E  { return append(a[:i], a[i+1:]...) }
func UseGeneric(xs []uint64)           { Generic(xs, 0) }
func Swap2(xs []uint64)                { xs[0], xs[1] = xs[1], xs[0] }
func CopyDst(dst, src []uint64)        { copy(dst, src) }
func Reassigned(xs []uint64)           { xs = copyOf(xs); xs[0] = 1 }
func ElemField(ps []Proof)             { ps[0].Targets = nil }
func Nested(xss [][]uint64) {
	for _, xs := range xss {
		xs[0] = 1
	}
}
