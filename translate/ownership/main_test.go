package main

import (
	"path/filepath"
	"testing"
)

// TestSample runs the analysis on testdata/sample and compares the labels of the write
// sites with the expectation written by hand from the provenance rules.
func TestSample(t *testing.T) {
	dir, _ := filepath.Abs("testdata/sample")
	api := []string{"DirectStore", "CopyThenStore", "AppendSpare", "AppendNil", "ViaHelperFresh", "ViaHelperParam", "SortIface",
		"Stump.StateWrite", "Stump.Retain", "Proof.RecvWrite", "Closure", "SliceOfSlice", "StructField", "FreshStruct", "SortSlice",
		"LocalArray", "UseGeneric", "Swap2", "CopyDst", "Reassigned", "ElemField", "Nested"}
	_, reach, sites, err := runAnalysis(dir, api)
	if err != nil {
		t.Fatal(err)
	}
	type key struct{ fn, kind, label string }
	got := map[key]int{}
	for _, s := range sites {
		got[key{s.fn.name, s.kind, s.final}]++
	}
	want := map[key]int{
		{"DirectStore", "indexStore", "param"}:      1,
		{"CopyThenStore", "indexStore", "fresh"}:    1,
		{"copyOf", "copyDst", "fresh"}:              1,
		{"AppendSpare", "appendBase", "param"}:      1,
		{"helperA", "indexStore", "fresh"}:          1,
		{"helperB", "indexStore", "param"}:          1,
		{"pair.Swap", "indexStore", "param"}:        4,
		{"Stump.StateWrite", "indexStore", "field"}: 1,
		{"Stump.StateWrite", "appendBase", "field"}: 1,
		{"Stump.StateWrite", "retain", "field"}:     1,
		{"Stump.Retain", "retain", "param"}:         1,
		{"Proof.RecvWrite", "indexStore", "param"}:  1,
		{"Closure", "indexStore", "param"}:          1,
		{"SliceOfSlice", "indexStore", "param"}:     1,
		{"StructField", "indexStore", "param"}:      1,
		{"FreshStruct", "indexStore", "fresh"}:      1,
		{"SortSlice", "sortInPlace", "param"}:       1,
		{"LocalArray", "copyDst", "fresh"}:          1,
		{"Generic", "appendBase", "param"}:          1,
		{"Swap2", "indexStore", "param"}:            2,
		{"CopyDst", "copyDst", "param"}:             1,
		// flow-insensitive: a reassigned parameter keeps its parameter provenance (conservative)
		{"Reassigned", "indexStore", "param"}: 1,
		{"ElemField", "indexStore", "param"}:  1,
		{"Nested", "indexStore", "param"}:     1,
	}
	for k, n := range want {
		if got[k] != n {
			t.Errorf("site %v: want %d, got %d", k, n, got[k])
		}
	}
	for k, n := range got {
		if want[k] == 0 {
			t.Errorf("unexpected site %v x%d", k, n)
		}
	}
	for _, f := range reach {
		if f.name == "Unreachable" {
			t.Errorf("Unreachable is listed as reachable")
		}
	}
}
