module ownership

go 1.21
