package main

import (
	"go/ast"
	"go/types"
	"sort"
	"strconv"
	"strings"
)

// Prov is a set of provenance atoms of a value that carries references (slices, pointers…):
// where may the memory it refers to have been allocated?
type Prov uint64

const (
	AFresh   Prov = 1 << iota // allocated by this call (make, literal, append to nil, copying helper)
	AField                    // accumulator state (receiver of a state type, or derived from it)
	AUnknown                  // the analysis cannot tell
	ACaller                   // (phase 2 only) a slice handed in by the caller of a C17 API
	paramBit0
)

const maxParams = 56

func paramAtom(k int) Prov {
	if k >= maxParams {
		return AUnknown
	}
	return paramBit0 << uint(k)
}

const paramMask = ^Prov(0) &^ (paramBit0 - 1)

func (p Prov) params() []int {
	var r []int
	for k := 0; k < maxParams; k++ {
		if p&paramAtom(k) != 0 {
			r = append(r, k)
		}
	}
	return r
}

func (p Prov) String() string {
	var parts []string
	if p&AFresh != 0 {
		parts = append(parts, "fresh")
	}
	if p&AField != 0 {
		parts = append(parts, "field")
	}
	if p&AUnknown != 0 {
		parts = append(parts, "unknown")
	}
	if p&ACaller != 0 {
		parts = append(parts, "caller")
	}
	for _, k := range p.params() {
		parts = append(parts, "param"+strconv.Itoa(k))
	}
	if len(parts) == 0 {
		return "none"
	}
	return strings.Join(parts, "+")
}

// stateTypes: named types whose receiver is accumulator state (writes through their fields
// are the purpose of the call, provenance `field`).  Every other receiver (Proof,
// hashAndPos, …) is data handed in by the caller.
var stateTypes = map[string]bool{
	"Stump": true, "Pollard": true, "MapPollard": true, "NodesMap": true, "cachedLeavesMap": true,
	"CachingScheduleTracker": true, "polNode": true,
}

// apiSet: the C17 entry points (property quantifier) plus the root getters whose results the
// harness tracks.
var apiSet = []string{
	"Verify", "Stump.Update", "Pollard.Verify", "MapPollard.Verify", "Pollard.Prove", "MapPollard.Prove",
	"Pollard.Modify", "MapPollard.Modify", "Pollard.Undo", "MapPollard.Undo",
	"MapPollard.VerifyPartialProof", "MapPollard.GetMissingPositions", "Proof.Update", "Proof.Undo",
	"AddProof", "GetProofSubset", "Pollard.GetRoots", "MapPollard.GetRoots",
}

// ---------------------------------------------------------------------------

type site struct {
	fn    *fnInfo
	kind  string
	root  string
	expr  string
	pos   string // file:line
	line  int
	raw   Prov   // in terms of fn's own parameters
	final string // fresh | field | param | unknown
	fprov Prov
}

type binding struct {
	callee *fnInfo
	args   []Prov // per callee parameter (receiver first)
}

type fnInfo struct {
	name    string
	obj     *types.Func
	decl    *ast.FuncDecl
	params  []*types.Var // receiver first
	pidx    map[*types.Var]int
	recvSt  bool // receiver is of a state type
	nres    int
	resRef  []bool // result i carries references
	results []Prov
	writes  Prov // parameters written through (directly or via callees)
	vars    map[types.Object]Prov
	sites   []site
	calls   []binding
	refs    map[*fnInfo]bool // functions referenced (call graph edges)
	class   []Prov           // phase 2: what callers pass for parameter k
	reach   bool
	entry   bool
}

func typeName(t types.Type) string {
	if p, ok := t.(*types.Pointer); ok {
		t = p.Elem()
	}
	if n, ok := t.(*types.Named); ok {
		return n.Obj().Name()
	}
	return ""
}

var errorType = types.Universe.Lookup("error").Type()

// carriesRef: can a value of type t refer to memory shared with another value?
func carriesRef(t types.Type) bool { return carries(t, map[types.Type]bool{}) }

func carries(t types.Type, seen map[types.Type]bool) bool {
	if t == nil {
		return true
	}
	if types.Identical(t, errorType) {
		return false
	}
	if seen[t] {
		return false
	}
	seen[t] = true
	switch u := t.Underlying().(type) {
	case *types.Basic:
		return u.Kind() == types.Invalid || u.Kind() == types.UnsafePointer
	case *types.Slice, *types.Pointer, *types.Map, *types.Chan, *types.Interface:
		if _, ok := t.(*types.TypeParam); ok {
			return true
		}
		return true
	case *types.Signature:
		return false // function values are not written through
	case *types.Array:
		return carries(u.Elem(), seen)
	case *types.Struct:
		for i := 0; i < u.NumFields(); i++ {
			if carries(u.Field(i).Type(), seen) {
				return true
			}
		}
		return false
	case *types.Tuple:
		for i := 0; i < u.Len(); i++ {
			if carries(u.At(i).Type(), seen) {
				return true
			}
		}
		return false
	}
	return true
}

func sortedFns(m map[*fnInfo]bool) []*fnInfo {
	var r []*fnInfo
	for f := range m {
		r = append(r, f)
	}
	sort.Slice(r, func(a, b int) bool { return r[a].name < r[b].name })
	return r
}
