package main

import (
	"fmt"
	"go/ast"
	"go/build"
	"go/importer"
	"go/parser"
	"go/token"
	"go/types"
	"os"
	"os/exec"
	"path/filepath"
	"regexp"
	"sort"
	"strings"
)

// ---------------------------------------------------------------------------
// importer: standard library from source; modules named in go.mod from the module cache
// (type-checked from source); everything else (and failures) faked by an empty package.

type imp struct {
	fset    *token.FileSet
	src     types.ImporterFrom
	dir     string
	mods    map[string]string // module path -> directory in the module cache
	done    map[string]*types.Package
	notes   []string
	ctx     build.Context
	loading map[string]bool
}

func (m *imp) Import(path string) (*types.Package, error) { return m.ImportFrom(path, m.dir, 0) }

func (m *imp) ImportFrom(path, dir string, mode types.ImportMode) (*types.Package, error) {
	if p, ok := m.done[path]; ok {
		return p, nil
	}
	first := path
	if i := strings.Index(first, "/"); i >= 0 {
		first = first[:i]
	}
	if !strings.Contains(first, ".") { // standard library
		if p, err := m.src.ImportFrom(path, dir, 0); err == nil {
			m.done[path] = p
			return p, nil
		} else {
			m.notes = append(m.notes, fmt.Sprintf("import %q failed (%v); using an empty stand-in", path, err))
		}
	} else if p := m.fromModule(path); p != nil {
		m.done[path] = p
		return p, nil
	}
	p := types.NewPackage(path, filepath.Base(path))
	p.MarkComplete()
	m.done[path] = p
	return p, nil
}

func (m *imp) fromModule(path string) *types.Package {
	best := ""
	for mod := range m.mods {
		if (path == mod || strings.HasPrefix(path, mod+"/")) && len(mod) > len(best) {
			best = mod
		}
	}
	if best == "" || m.loading[path] {
		return nil
	}
	m.loading[path] = true
	defer delete(m.loading, path)
	d := filepath.Join(m.mods[best], strings.TrimPrefix(path, best))
	files, err := parseDir(m.fset, d, &m.ctx, "")
	if err != nil || len(files) == 0 {
		m.notes = append(m.notes, fmt.Sprintf("import %q: cannot read %s; using an empty stand-in", path, d))
		return nil
	}
	conf := types.Config{Importer: m, Error: func(error) {}}
	p, _ := conf.Check(path, m.fset, files, nil)
	return p
}

// parseDir parses the non-test Go files of dir that the build context selects.
// If pkgName is non-empty only files of that package are kept.
func parseDir(fset *token.FileSet, dir string, ctx *build.Context, pkgName string) ([]*ast.File, error) {
	ents, err := os.ReadDir(dir)
	if err != nil {
		return nil, err
	}
	var names []string
	for _, e := range ents {
		n := e.Name()
		if e.IsDir() || !strings.HasSuffix(n, ".go") || strings.HasSuffix(n, "_test.go") {
			continue
		}
		if ok, err := ctx.MatchFile(dir, n); err != nil || !ok {
			continue
		}
		names = append(names, n)
	}
	sort.Strings(names)
	var files []*ast.File
	for _, n := range names {
		af, err := parser.ParseFile(fset, filepath.Join(dir, n), nil, parser.SkipObjectResolution|parser.ParseComments)
		if err != nil {
			return nil, err
		}
		if pkgName != "" && af.Name.Name != pkgName {
			continue
		}
		files = append(files, af)
	}
	return files, nil
}

var requireRe = regexp.MustCompile(`^\s*(?:require\s+)?([A-Za-z0-9._/\-]+\.[A-Za-z0-9._/\-]+)\s+(v[^\s]+)`)

// moduleDirs maps the modules required by dir/go.mod to their module-cache directories.
func moduleDirs(dir string) map[string]string {
	res := map[string]string{}
	data, err := os.ReadFile(filepath.Join(dir, "go.mod"))
	if err != nil {
		return res
	}
	cache := os.Getenv("GOMODCACHE")
	if cache == "" {
		if out, err := exec.Command("go", "env", "GOMODCACHE").Output(); err == nil {
			cache = strings.TrimSpace(string(out))
		}
	}
	if cache == "" {
		return res
	}
	for _, line := range strings.Split(string(data), "\n") {
		if m := requireRe.FindStringSubmatch(line); m != nil {
			d := filepath.Join(cache, m[1]+"@"+m[2])
			if st, err := os.Stat(d); err == nil && st.IsDir() {
				res[m[1]] = d
			}
		}
	}
	return res
}

type loaded struct {
	fset  *token.FileSet
	files []*ast.File
	info  *types.Info
	pkg   *types.Package
	errs  []types.Error
	notes []string
}

// load parses and type-checks the package in dir with build tag "verif" (the way the
// harness builds it).
func load(dir string) (*loaded, error) {
	fset := token.NewFileSet()
	ctx := build.Default
	ctx.BuildTags = append([]string{"verif"}, ctx.BuildTags...)
	all, err := parseDir(fset, dir, &ctx, "")
	if err != nil {
		return nil, err
	}
	if len(all) == 0 {
		return nil, fmt.Errorf("no Go files in %s", dir)
	}
	// keep the majority package name (the library package)
	cnt := map[string]int{}
	for _, f := range all {
		cnt[f.Name.Name]++
	}
	name := ""
	for n, c := range cnt {
		if c > cnt[name] || (c == cnt[name] && n < name) {
			name = n
		}
	}
	var files []*ast.File
	for _, f := range all {
		if f.Name.Name == name {
			files = append(files, f)
		}
	}
	l := &loaded{fset: fset, files: files}
	l.info = &types.Info{
		Types:      map[ast.Expr]types.TypeAndValue{},
		Defs:       map[*ast.Ident]types.Object{},
		Uses:       map[*ast.Ident]types.Object{},
		Selections: map[*ast.SelectorExpr]*types.Selection{},
		Instances:  map[*ast.Ident]types.Instance{},
	}
	im := &imp{fset: fset, src: importer.ForCompiler(fset, "source", nil).(types.ImporterFrom), dir: dir,
		mods: moduleDirs(dir), done: map[string]*types.Package{}, ctx: ctx, loading: map[string]bool{}}
	conf := types.Config{Importer: im, Error: func(e error) {
		if te, ok := e.(types.Error); ok {
			l.errs = append(l.errs, te)
		}
	}}
	l.pkg, _ = conf.Check(name, fset, files, l.info)
	l.notes = im.notes
	if l.pkg == nil {
		return nil, fmt.Errorf("type check of %s produced no package", dir)
	}
	return l, nil
}
