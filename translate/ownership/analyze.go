package main

import (
	"fmt"
	"go/ast"
	"go/token"
	"go/types"
	"path/filepath"
	"strings"
)

type an struct {
	l      *loaded
	fns    map[*types.Func]*fnInfo
	byName map[string]*fnInfo
	order  []*fnInfo
	impls  map[*types.Func][]*fnInfo
	vrefs  map[*fnInfo]map[*fnInfo]bool
}

func (a *an) lookupIdent(id *ast.Ident) *fnInfo {
	if fo, ok := a.l.info.Uses[id].(*types.Func); ok {
		return a.lookup(fo)
	}
	return nil
}

func newAn(l *loaded) *an {
	a := &an{l: l, fns: map[*types.Func]*fnInfo{}, byName: map[string]*fnInfo{}, impls: map[*types.Func][]*fnInfo{}}
	for _, file := range l.files {
		for _, d := range file.Decls {
			fd, ok := d.(*ast.FuncDecl)
			if !ok || fd.Body == nil {
				continue
			}
			obj, ok := l.info.Defs[fd.Name].(*types.Func)
			if !ok {
				continue
			}
			sig := obj.Type().(*types.Signature)
			f := &fnInfo{obj: obj, decl: fd, pidx: map[*types.Var]int{}, vars: map[types.Object]Prov{}, refs: map[*fnInfo]bool{}}
			f.name = fd.Name.Name
			if r := sig.Recv(); r != nil {
				tn := typeName(r.Type())
				f.name = tn + "." + fd.Name.Name
				f.recvSt = stateTypes[tn]
				f.params = append(f.params, r)
			}
			for i := 0; i < sig.Params().Len(); i++ {
				f.params = append(f.params, sig.Params().At(i))
			}
			for i, p := range f.params {
				f.pidx[p] = i
			}
			f.nres = sig.Results().Len()
			f.results = make([]Prov, f.nres)
			f.resRef = make([]bool, f.nres)
			for i := 0; i < f.nres; i++ {
				f.resRef[i] = carriesRef(sig.Results().At(i).Type())
			}
			f.class = make([]Prov, len(f.params))
			a.fns[obj] = f
			a.byName[f.name] = f
			a.order = append(a.order, f)
		}
	}
	return a
}

func (a *an) lookup(fo *types.Func) *fnInfo {
	if fo == nil {
		return nil
	}
	return a.fns[fo.Origin()]
}

// implementations of an in-package interface method
func (a *an) implsOf(m *types.Func) []*fnInfo {
	m = m.Origin()
	if r, ok := a.impls[m]; ok {
		return r
	}
	var res []*fnInfo
	sig := m.Type().(*types.Signature)
	if sig.Recv() != nil {
		if iface, ok := sig.Recv().Type().Underlying().(*types.Interface); ok {
			scope := a.l.pkg.Scope()
			for _, n := range scope.Names() {
				tn, ok := scope.Lookup(n).(*types.TypeName)
				if !ok || types.IsInterface(tn.Type()) {
					continue
				}
				pt := types.NewPointer(tn.Type())
				if !types.Implements(tn.Type(), iface) && !types.Implements(pt, iface) {
					continue
				}
				o, _, _ := types.LookupFieldOrMethod(pt, true, a.l.pkg, m.Name())
				if fo, ok := o.(*types.Func); ok {
					if f := a.lookup(fo); f != nil {
						res = append(res, f)
					}
				}
			}
		}
	}
	a.impls[m] = res
	return res
}

// ---------------------------------------------------------------------------
// per-function context

type fctx struct {
	a       *an
	f       *fnInfo
	changed bool
	depth   int
}

func (c *fctx) info() *types.Info { return c.a.l.info }

func (c *fctx) obj(id *ast.Ident) types.Object {
	if o := c.info().Uses[id]; o != nil {
		return o
	}
	return c.info().Defs[id]
}

func (c *fctx) typeOf(e ast.Expr) types.Type {
	if tv, ok := c.info().Types[e]; ok && tv.Type != nil {
		return tv.Type
	}
	if id, ok := e.(*ast.Ident); ok {
		if o := c.obj(id); o != nil {
			return o.Type()
		}
	}
	return nil
}

func under(t types.Type) types.Type {
	if t == nil {
		return nil
	}
	return t.Underlying()
}

func (c *fctx) addVar(o types.Object, p Prov) {
	if o == nil || p == 0 {
		return
	}
	if v, ok := o.(*types.Var); ok {
		if v.IsField() || (v.Parent() == c.a.l.pkg.Scope()) {
			return
		}
		if !carriesRef(v.Type()) {
			return
		}
	} else {
		return
	}
	if c.f.vars[o]|p != c.f.vars[o] {
		c.f.vars[o] |= p
		c.changed = true
	}
}

func (c *fctx) posOf(p token.Pos) (string, int) {
	pp := c.a.l.fset.Position(p)
	return fmt.Sprintf("%s:%d", filepath.Base(pp.Filename), pp.Line), pp.Line
}

func (c *fctx) exprText(e ast.Expr) string {
	s := types.ExprString(e)
	if len(s) > 70 {
		s = s[:67] + "..."
	}
	return s
}

func (c *fctx) addSite(kind string, at ast.Node, target ast.Expr, raw Prov, raw2 Prov) {
	pos, line := c.posOf(at.Pos())
	c.f.sites = append(c.f.sites, site{fn: c.f, kind: kind, root: c.rootName(target), expr: c.exprText(target),
		pos: pos, line: line, raw: raw, fprov: raw2})
	if kind != "retain" {
		c.f.writes |= raw & paramMask
	}
}

// ---------------------------------------------------------------------------
// provenance of expressions

func isNilExpr(c *fctx, e ast.Expr) bool {
	for {
		switch x := e.(type) {
		case *ast.ParenExpr:
			e = x.X
			continue
		case *ast.Ident:
			_, ok := c.obj(x).(*types.Nil)
			return ok
		case *ast.CallExpr: // []T(nil)
			if tv, ok := c.info().Types[x.Fun]; ok && tv.IsType() && len(x.Args) == 1 {
				e = x.Args[0]
				continue
			}
		}
		return false
	}
}

func (c *fctx) prov(e ast.Expr) Prov {
	if e == nil {
		return 0
	}
	if t := c.typeOf(e); t != nil {
		if _, isTuple := t.(*types.Tuple); !isTuple && !carriesRef(t) {
			return 0
		}
	}
	switch x := e.(type) {
	case *ast.ParenExpr:
		return c.prov(x.X)
	case *ast.Ident:
		return c.provIdent(x)
	case *ast.BasicLit, *ast.FuncLit, *ast.BinaryExpr:
		return 0
	case *ast.SelectorExpr:
		if id, ok := x.X.(*ast.Ident); ok {
			if _, isPkg := c.obj(id).(*types.PkgName); isPkg {
				return AUnknown
			}
		}
		if sel := c.info().Selections[x]; sel != nil && sel.Kind() != types.FieldVal {
			return 0
		}
		return c.prov(x.X)
	case *ast.IndexExpr:
		if tv, ok := c.info().Types[x.X]; ok && (tv.IsType() || isFuncType(tv.Type)) {
			return 0
		}
		return c.prov(x.X)
	case *ast.IndexListExpr:
		return 0
	case *ast.SliceExpr:
		if _, isArr := under(c.typeOf(x.X)).(*types.Array); isArr {
			return c.storageProv(x.X)
		}
		return c.prov(x.X)
	case *ast.StarExpr:
		return c.prov(x.X)
	case *ast.UnaryExpr:
		if x.Op == token.AND {
			return c.storageProv(x.X) | c.prov(x.X)
		}
		if x.Op == token.ARROW {
			return AUnknown
		}
		return 0
	case *ast.TypeAssertExpr:
		return c.prov(x.X)
	case *ast.KeyValueExpr:
		return c.prov(x.Value)
	case *ast.CompositeLit:
		p := AFresh
		for _, el := range x.Elts {
			if kv, ok := el.(*ast.KeyValueExpr); ok {
				el = kv.Value
			}
			p |= c.prov(el)
		}
		return p
	case *ast.CallExpr:
		var p Prov
		for _, r := range c.callResults(x) {
			p |= r
		}
		return p
	}
	return AUnknown
}

func isFuncType(t types.Type) bool {
	if t == nil {
		return false
	}
	_, ok := t.Underlying().(*types.Signature)
	return ok
}

func (c *fctx) provIdent(id *ast.Ident) Prov {
	if id.Name == "_" {
		return 0
	}
	switch o := c.obj(id).(type) {
	case *types.Var:
		if k, ok := c.f.pidx[o]; ok {
			return paramAtom(k) | c.f.vars[o]
		}
		if o.Parent() == c.a.l.pkg.Scope() || (o.Pkg() != nil && o.Pkg() != c.a.l.pkg) {
			return AUnknown
		}
		return c.f.vars[o]
	case *types.Nil:
		return AFresh
	case *types.Const, *types.Func, *types.TypeName, *types.Builtin, *types.PkgName:
		return 0
	}
	return AUnknown
}

// storageProv: where does the memory that holds (addressable) e live?
func (c *fctx) storageProv(e ast.Expr) Prov {
	switch x := e.(type) {
	case *ast.ParenExpr:
		return c.storageProv(x.X)
	case *ast.Ident:
		if v, ok := c.obj(x).(*types.Var); ok {
			if v.Parent() == c.a.l.pkg.Scope() || (v.Pkg() != nil && v.Pkg() != c.a.l.pkg) {
				return AUnknown
			}
			return AFresh // a local variable or a by-value parameter: this call's own copy
		}
		return AUnknown
	case *ast.SelectorExpr:
		if id, ok := x.X.(*ast.Ident); ok {
			if _, isPkg := c.obj(id).(*types.PkgName); isPkg {
				return AUnknown
			}
		}
		if _, isPtr := under(c.typeOf(x.X)).(*types.Pointer); isPtr {
			return c.prov(x.X)
		}
		return c.storageProv(x.X)
	case *ast.IndexExpr:
		switch under(c.typeOf(x.X)).(type) {
		case *types.Array:
			return c.storageProv(x.X)
		case *types.Map:
			return AFresh
		}
		return c.prov(x.X)
	case *ast.StarExpr:
		return c.prov(x.X)
	case *ast.CompositeLit, *ast.CallExpr:
		return AFresh
	}
	return AUnknown
}

func (c *fctx) rootIdent(e ast.Expr) *ast.Ident {
	for {
		switch x := e.(type) {
		case *ast.ParenExpr:
			e = x.X
		case *ast.SelectorExpr:
			e = x.X
		case *ast.IndexExpr:
			e = x.X
		case *ast.SliceExpr:
			e = x.X
		case *ast.StarExpr:
			e = x.X
		case *ast.UnaryExpr:
			e = x.X
		case *ast.TypeAssertExpr:
			e = x.X
		case *ast.CallExpr:
			cal := c.resolve(x)
			if (cal.kind == kConv || (cal.kind == kBuiltin && cal.name == "append")) && len(x.Args) > 0 {
				e = x.Args[0]
			} else {
				return nil
			}
		case *ast.Ident:
			return x
		default:
			return nil
		}
	}
}

func (c *fctx) rootName(e ast.Expr) string {
	if id := c.rootIdent(e); id != nil {
		if _, isPkg := c.obj(id).(*types.PkgName); !isPkg {
			return id.Name
		}
	}
	return "expr"
}

func (c *fctx) rootVar(e ast.Expr) types.Object {
	if id := c.rootIdent(e); id != nil {
		if v, ok := c.obj(id).(*types.Var); ok {
			return v
		}
	}
	return nil
}

// storeTarget: if assigning to lhs writes into the backing array of a slice, that slice.
func (c *fctx) storeTarget(lhs ast.Expr) (ast.Expr, bool) {
	e := lhs
	for {
		switch x := e.(type) {
		case *ast.ParenExpr:
			e = x.X
		case *ast.SelectorExpr:
			if _, isPtr := under(c.typeOf(x.X)).(*types.Pointer); isPtr {
				return nil, false
			}
			if c.info().Selections[x] == nil {
				return nil, false
			}
			e = x.X
		case *ast.IndexExpr:
			switch under(c.typeOf(x.X)).(type) {
			case *types.Slice:
				return x.X, true
			case *types.Array:
				e = x.X
			case *types.Map, *types.Pointer:
				return nil, false
			default:
				if c.typeOf(x.X) == nil {
					return x.X, true // untyped (type error): be conservative
				}
				if _, ok := c.typeOf(x.X).(*types.TypeParam); ok {
					return x.X, true
				}
				return nil, false
			}
		default:
			return nil, false
		}
	}
}

// ---------------------------------------------------------------------------
// callee resolution

const (
	kUnknown = iota
	kBuiltin
	kConv
	kFn
	kIface
	kExt
	kDyn
)

type calleeT struct {
	kind int
	name string
	fns  []*fnInfo
	recv ast.Expr
}

func (c *fctx) resolve(call *ast.CallExpr) calleeT {
	fun := call.Fun
	for {
		switch x := fun.(type) {
		case *ast.ParenExpr:
			fun = x.X
			continue
		case *ast.IndexExpr:
			if tv, ok := c.info().Types[x.X]; ok && !tv.IsType() && isFuncType(tv.Type) {
				fun = x.X
				continue
			}
		case *ast.IndexListExpr:
			if tv, ok := c.info().Types[x.X]; ok && !tv.IsType() && isFuncType(tv.Type) {
				fun = x.X
				continue
			}
		}
		break
	}
	if tv, ok := c.info().Types[fun]; ok && tv.IsType() {
		return calleeT{kind: kConv}
	}
	switch x := fun.(type) {
	case *ast.Ident:
		switch o := c.obj(x).(type) {
		case *types.Builtin:
			return calleeT{kind: kBuiltin, name: o.Name()}
		case *types.TypeName:
			return calleeT{kind: kConv}
		case *types.Func:
			if f := c.a.lookup(o); f != nil {
				return calleeT{kind: kFn, name: f.name, fns: []*fnInfo{f}}
			}
			return calleeT{kind: kExt, name: pkgBase(o.Pkg()) + "." + o.Name()}
		case *types.Var:
			return calleeT{kind: kDyn, name: x.Name}
		}
		return calleeT{kind: kUnknown, name: x.Name}
	case *ast.SelectorExpr:
		if id, ok := x.X.(*ast.Ident); ok {
			if pn, isPkg := c.obj(id).(*types.PkgName); isPkg {
				return calleeT{kind: kExt, name: filepath.Base(pn.Imported().Path()) + "." + x.Sel.Name}
			}
		}
		sel := c.info().Selections[x]
		if sel == nil {
			return calleeT{kind: kUnknown, name: x.Sel.Name}
		}
		switch sel.Kind() {
		case types.FieldVal:
			return calleeT{kind: kDyn, name: x.Sel.Name}
		case types.MethodExpr:
			if fo, ok := sel.Obj().(*types.Func); ok {
				if f := c.a.lookup(fo); f != nil {
					return calleeT{kind: kFn, name: f.name, fns: []*fnInfo{f}}
				}
			}
			return calleeT{kind: kExt, name: "?." + x.Sel.Name}
		case types.MethodVal:
			fo := sel.Obj().(*types.Func)
			if types.IsInterface(sel.Recv()) {
				if fo.Pkg() == c.a.l.pkg {
					return calleeT{kind: kIface, name: typeName(sel.Recv()) + "." + fo.Name(), fns: c.a.implsOf(fo), recv: x.X}
				}
				return calleeT{kind: kExt, name: pkgBase(fo.Pkg()) + "." + typeName(sel.Recv()) + "." + fo.Name(), recv: x.X}
			}
			if f := c.a.lookup(fo); f != nil {
				return calleeT{kind: kFn, name: f.name, fns: []*fnInfo{f}, recv: x.X}
			}
			return calleeT{kind: kExt, name: pkgBase(fo.Pkg()) + "." + typeName(sel.Recv()) + "." + fo.Name(), recv: x.X}
		}
	case *ast.FuncLit:
		return calleeT{kind: kDyn, name: "funclit"}
	}
	return calleeT{kind: kDyn, name: "expr"}
}

func pkgBase(p *types.Package) string {
	if p == nil {
		return "universe"
	}
	return filepath.Base(p.Path())
}

// argProvs: provenance per callee parameter (receiver first)
func (c *fctx) argProvs(call *ast.CallExpr, cal calleeT, f *fnInfo) []Prov {
	args := make([]Prov, len(f.params))
	k := 0
	hasRecv := f.obj.Type().(*types.Signature).Recv() != nil
	var actual []Prov
	if hasRecv && cal.recv != nil {
		actual = append(actual, c.prov(cal.recv))
	}
	if len(call.Args) == 1 {
		if inner, ok := call.Args[0].(*ast.CallExpr); ok {
			if tup, ok := c.typeOf(inner).(*types.Tuple); ok && tup.Len() > 1 {
				actual = append(actual, c.callResults(inner)...)
				goto bind
			}
		}
	}
	for _, a := range call.Args {
		actual = append(actual, c.prov(a))
	}
bind:
	sig := f.obj.Type().(*types.Signature)
	for _, p := range actual {
		if k >= len(args) {
			if sig.Variadic() && len(args) > 0 {
				args[len(args)-1] |= p
			}
			continue
		}
		args[k] |= p
		k++
	}
	return args
}

func subst(p Prov, args []Prov) Prov {
	r := p &^ paramMask
	for _, k := range p.params() {
		if k < len(args) {
			r |= args[k]
		} else {
			r |= AUnknown
		}
	}
	return r
}

func (c *fctx) joinArgs(call *ast.CallExpr) Prov {
	var p Prov
	for _, a := range call.Args {
		p |= c.prov(a)
	}
	return p
}

// callResults: provenance of each result of the call (no side effects recorded)
func (c *fctx) callResults(call *ast.CallExpr) []Prov {
	cal := c.resolve(call)
	n := 1
	if tup, ok := c.typeOf(call).(*types.Tuple); ok {
		n = tup.Len()
	}
	res := make([]Prov, n)
	fill := func(p Prov) []Prov {
		for i := range res {
			res[i] = p
		}
		return res
	}
	switch cal.kind {
	case kConv:
		if len(call.Args) == 1 {
			if b, ok := under(c.typeOf(call.Args[0])).(*types.Basic); ok && b.Info()&types.IsString != 0 {
				return fill(AFresh)
			}
			return fill(c.prov(call.Args[0]))
		}
		return fill(AUnknown)
	case kBuiltin:
		switch cal.name {
		case "make", "new":
			return fill(AFresh)
		case "append":
			if len(call.Args) == 0 {
				return fill(AFresh)
			}
			p := AFresh | c.prov(call.Args[0])
			for _, a := range call.Args[1:] {
				p |= c.prov(a) // non-zero only when the elements themselves carry references
			}
			if call.Ellipsis.IsValid() && len(call.Args) == 2 {
				// append(a, b...): elements are copied; they alias b only if they carry references
				if sl, ok := under(c.typeOf(call.Args[1])).(*types.Slice); ok && !carriesRef(sl.Elem()) {
					p = AFresh | c.prov(call.Args[0])
				}
			}
			return fill(p)
		}
		return fill(0)
	case kFn, kIface:
		for _, f := range cal.fns {
			args := c.argProvs(call, cal, f)
			for i := range res {
				if i < len(f.results) {
					res[i] |= subst(f.results[i], args)
				}
			}
		}
		if len(cal.fns) == 0 {
			return fill(AUnknown)
		}
		return res
	case kExt:
		switch extResult(cal.name) {
		case "arg0":
			if len(call.Args) > 0 {
				return fill(c.prov(call.Args[0]) | AFresh)
			}
			return fill(AFresh)
		case "fresh":
			return fill(AFresh)
		}
		p := c.joinArgs(call)
		if cal.recv != nil {
			p |= c.prov(cal.recv)
		}
		if p == 0 || p == AFresh {
			return fill(AFresh)
		}
		return fill(p | AUnknown)
	}
	return fill(AUnknown)
}

func extResult(name string) string {
	base := name[strings.LastIndex(name, ".")+1:]
	pkg := name
	if i := strings.Index(name, "."); i >= 0 {
		pkg = name[:i]
	}
	switch pkg {
	case "slices":
		switch base {
		case "Delete", "DeleteFunc", "Insert", "Grow", "Clip", "Compact", "CompactFunc", "Replace":
			return "arg0"
		case "Clone":
			return "fresh"
		}
	case "fmt", "hex", "strings", "strconv", "errors", "bits", "math":
		return "fresh"
	case "sha512", "sha256":
		return "fresh"
	}
	switch base {
	case "Sum":
		return "arg0"
	}
	return ""
}
