// ownership lists every write-through-a-slice site of the utreexo package that is reachable
// (static call graph) from the C17 API set, with the provenance of the written slice, and
// emits the table as Lean enumeration types for Props/C17.lean (theorem ownership_ok).
//
//	ownership /repo /verif/lean/UtreexoVerif/Gen/Ownership.lean [report.txt]
//
// Go standard library only (go/parser, go/ast, go/types).  The program is deterministic,
// removes its output before doing anything else and exits non-zero if an API function is
// missing or the package cannot be analysed.
//
// Analysis (syntactic, flow-insensitive, context-insensitive; TRUSTED, see DESIGN §5 C17):
//  1. per function: provenance of every local variable that carries references = join over
//     all its assignments of {fresh, unknown, param k} (make/literal/append-to-nil/new = fresh;
//     slicing, field selection, append(s,…), conversion keep the provenance of the operand;
//     calls use the callee's summary);
//  2. summaries (results, parameters written through) by a fixpoint over the package;
//  3. from the API entries, the class of every parameter of every reachable function = join
//     of what its callers pass (API parameters = caller's data; receivers of the state types
//     Stump/Pollard/MapPollard = field);
//  4. every direct write site gets the label fresh | field | param | unknown.
package main

import (
	"fmt"
	"go/ast"
	"os"
	"path/filepath"
	"sort"
	"strings"
)

func die(format string, a ...interface{}) {
	fmt.Fprintf(os.Stderr, "ownership: "+format+"\n", a...)
	os.Exit(1)
}

func substClass(p Prov, class []Prov) Prov {
	r := p & (AFresh | AField | AUnknown | ACaller)
	for _, k := range p.params() {
		if k < len(class) {
			r |= class[k]
		} else {
			r |= AUnknown
		}
	}
	return r
}

func label(p Prov) string {
	switch {
	case p&AUnknown != 0:
		return "unknown"
	case p&ACaller != 0:
		return "param"
	case p&AField != 0:
		return "field"
	}
	return "fresh"
}

var leanReserved = map[string]bool{}

func init() {
	for _, s := range strings.Fields(`at from end open in do then else if let have show fun match with def theorem
		instance where deriving mut for return namespace section import variable universe structure inductive class
		abbrev example axiom opaque private protected partial unsafe noncomputable macro syntax notation prefix
		postfix by calc using suffices obtain exact nomatch nofun try catch finally unless break continue Type Sort
		Prop forall exists local scoped attribute export mutual extends this mk rec`) {
		leanReserved[s] = true
	}
}

func mangle(s string) string {
	var b strings.Builder
	for _, r := range s {
		switch {
		case r >= 'a' && r <= 'z', r >= 'A' && r <= 'Z', r >= '0' && r <= '9', r == '_':
			b.WriteRune(r)
		default:
			b.WriteByte('_')
		}
	}
	r := b.String()
	if r == "" || (r[0] >= '0' && r[0] <= '9') || leanReserved[r] {
		r = "x_" + r
	}
	return r
}

func main() {
	if len(os.Args) < 3 {
		die("usage: ownership <repo-dir> <out.lean> [report.txt]")
	}
	dir, outPath := os.Args[1], os.Args[2]
	if err := os.Remove(outPath); err != nil && !os.IsNotExist(err) {
		die("cannot remove old output: %v", err)
	}
	dir, _ = filepath.Abs(dir)
	a, reach, sites, err := runAnalysis(dir, apiSet)
	if err != nil {
		die("%v", err)
	}
	emit(a, dir, outPath, reach, sites)
	if len(os.Args) > 3 {
		report(a, os.Args[3], reach, sites)
	}
	n := map[string]int{}
	for _, s := range sites {
		n[s.final]++
	}
	fmt.Fprintf(os.Stderr, "ownership: %d reachable functions, %d write sites (fresh %d, field %d, param %d, unknown %d)\n",
		len(reach), len(sites), n["fresh"], n["field"], n["param"], n["unknown"])
	for _, note := range a.l.notes {
		fmt.Fprintf(os.Stderr, "ownership: note: %s\n", note)
	}
}

// runAnalysis analyses the package in dir from the given entry points.
func runAnalysis(dir string, api []string) (*an, []*fnInfo, []site, error) {
	l, err := load(dir)
	if err != nil {
		return nil, nil, nil, err
	}
	a := newAn(l)

	// type errors inside the package are fatal: the analysis needs the types
	for _, te := range l.errs {
		pos := l.fset.Position(te.Pos)
		if filepath.Dir(pos.Filename) == dir {
			return nil, nil, nil, fmt.Errorf("type error in the analysed package: %s: %s", pos, te.Msg)
		}
	}

	// phase 1: summaries
	for round := 0; ; round++ {
		changed := false
		for _, f := range a.order {
			if a.analyze(f) {
				changed = true
			}
		}
		if !changed {
			break
		}
		if round > 200 {
			return nil, nil, nil, fmt.Errorf("summary fixpoint does not converge")
		}
	}
	a.valueRefs()

	// phase 2: reachability and parameter classes from the API entries
	var missing []string
	for _, name := range api {
		f := a.byName[name]
		if f == nil {
			missing = append(missing, name)
			continue
		}
		f.entry, f.reach = true, true
		for k, p := range f.params {
			if !carriesRef(p.Type()) {
				continue
			}
			if k == 0 && f.recvSt && f.decl.Recv != nil {
				f.class[k] |= AField
			} else {
				f.class[k] |= ACaller
			}
		}
	}
	if len(missing) > 0 {
		return nil, nil, nil, fmt.Errorf("C17 API function(s) not found in %s: %s", dir, strings.Join(missing, ", "))
	}
	for changed := true; changed; {
		changed = false
		for _, f := range a.order {
			if !f.reach {
				continue
			}
			for _, b := range f.calls {
				g := b.callee
				if !g.reach {
					g.reach, changed = true, true
				}
				for j, ap := range b.args {
					if j < len(g.class) {
						v := substClass(ap, f.class)
						if g.class[j]|v != g.class[j] {
							g.class[j] |= v
							changed = true
						}
					}
				}
			}
			for _, g := range sortedFns(f.refs) {
				if !g.reach {
					g.reach, changed = true, true
				}
			}
			for _, g := range sortedFns(a.vrefs[f]) {
				// referenced as a value: what it is called with is not tracked
				for k, p := range g.params {
					if carriesRef(p.Type()) && g.class[k]&AUnknown == 0 {
						g.class[k] |= AUnknown
						changed = true
					}
				}
			}
		}
	}

	// phase 3: label the sites of reachable functions
	var sites []site
	var reach []*fnInfo
	for _, f := range a.order {
		if !f.reach {
			continue
		}
		reach = append(reach, f)
		for _, s := range f.sites {
			fp := substClass(s.raw, f.class)
			if s.kind == "retain" {
				dest := substClass(s.fprov, f.class)
				if dest&(AField|AUnknown) == 0 {
					continue // stored into memory owned by the call or by the caller's own value
				}
			}
			s.final = label(fp)
			s.fprov = fp
			sites = append(sites, s)
		}
	}
	sort.Slice(reach, func(i, j int) bool { return reach[i].name < reach[j].name })
	sort.SliceStable(sites, func(i, j int) bool {
		x, y := sites[i], sites[j]
		if x.fn.name != y.fn.name {
			return x.fn.name < y.fn.name
		}
		if x.line != y.line {
			return x.line < y.line
		}
		if x.kind != y.kind {
			return x.kind < y.kind
		}
		return x.root < y.root
	})
	return a, reach, sites, nil
}

// valueRefs: functions referenced other than in call position (their arguments are unknown).
func (a *an) valueRefs() {
	a.vrefs = map[*fnInfo]map[*fnInfo]bool{}
	for _, f := range a.order {
		callPos := map[*ast.Ident]bool{}
		ast.Inspect(f.decl.Body, func(n ast.Node) bool {
			if call, ok := n.(*ast.CallExpr); ok {
				fun := call.Fun
				for {
					switch x := fun.(type) {
					case *ast.ParenExpr:
						fun = x.X
						continue
					case *ast.IndexExpr:
						fun = x.X
						continue
					case *ast.IndexListExpr:
						fun = x.X
						continue
					case *ast.SelectorExpr:
						callPos[x.Sel] = true
					case *ast.Ident:
						callPos[x] = true
					}
					break
				}
			}
			return true
		})
		ast.Inspect(f.decl.Body, func(n ast.Node) bool {
			if id, ok := n.(*ast.Ident); ok && !callPos[id] {
				if g := a.lookupIdent(id); g != nil {
					if a.vrefs[f] == nil {
						a.vrefs[f] = map[*fnInfo]bool{}
					}
					a.vrefs[f][g] = true
				}
			}
			return true
		})
	}
}
