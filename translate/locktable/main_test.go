package main

import (
	"os"
	"path/filepath"
	"regexp"
	"strings"
	"testing"
)

// The explicit-release form of the lock discipline (explicitRelease): accepted exactly when
// the lock is released immediately before every way out of the body and the instance is not
// touched afterwards.  The variants replace the body of MapPollard.GetNumLeaves in a copy of
// the library tree (VERIF_REPO, default /repo).
func TestExplicitRelease(t *testing.T) {
	repo := os.Getenv("VERIF_REPO")
	if repo == "" {
		repo = "/repo"
	}
	orig, err := os.ReadFile(filepath.Join(repo, "mappollard.go"))
	if err != nil {
		t.Skip("library tree not available: ", err)
	}
	re := regexp.MustCompile(`(?s)func \(m \*MapPollard\) GetNumLeaves\(\) uint64 \{\n.*?\n\}\n`)
	if !re.Match(orig) {
		t.Fatal("GetNumLeaves not found")
	}
	cases := []struct {
		name, body string
		regular    bool
	}{
		{"defer", "\tm.rwLock.RLock()\n\tdefer m.rwLock.RUnlock()\n\treturn m.NumLeaves\n", true},
		{"explicit", "\tm.rwLock.RLock()\n\tn := m.NumLeaves\n\tm.rwLock.RUnlock()\n\treturn n\n", true},
		{"explicit-two-returns", "\tm.rwLock.RLock()\n\tif m.NumLeaves == 0 {\n\t\tm.rwLock.RUnlock()\n\t\treturn 0\n\t}\n\tn := m.NumLeaves\n\tm.rwLock.RUnlock()\n\treturn n\n", true},
		{"access-after-release", "\tm.rwLock.RLock()\n\tm.rwLock.RUnlock()\n\treturn m.NumLeaves\n", false},
		{"way-out-keeps-lock", "\tm.rwLock.RLock()\n\tif m.NumLeaves == 0 {\n\t\treturn 0\n\t}\n\tn := m.NumLeaves\n\tm.rwLock.RUnlock()\n\treturn n\n", false},
		{"two-sections", "\tm.rwLock.RLock()\n\tn := m.NumLeaves\n\tm.rwLock.RUnlock()\n\tm.rwLock.RLock()\n\tn += m.NumLeaves - n\n\tm.rwLock.RUnlock()\n\treturn n\n", false},
		{"release-not-before-return", "\tm.rwLock.RLock()\n\tn := m.NumLeaves\n\tif n > 0 {\n\t\tm.rwLock.RUnlock()\n\t\tn++\n\t\tn--\n\t}\n\treturn n\n", false},
		{"wrong-release-kind", "\tm.rwLock.RLock()\n\tn := m.NumLeaves\n\tm.rwLock.Unlock()\n\treturn n\n", false},
	}
	ents, _ := os.ReadDir(repo)
	for _, c := range cases {
		dir := t.TempDir()
		for _, e := range ents {
			if e.IsDir() || !strings.HasSuffix(e.Name(), ".go") || strings.HasSuffix(e.Name(), "_test.go") {
				continue
			}
			b, _ := os.ReadFile(filepath.Join(repo, e.Name()))
			if e.Name() == "mappollard.go" {
				b = re.ReplaceAll(orig, []byte("func (m *MapPollard) GetNumLeaves() uint64 {\n"+strings.ReplaceAll(c.body, "$", "$$")+"}\n"))
			}
			os.WriteFile(filepath.Join(dir, e.Name()), b, 0o644)
		}
		var got *methodInfo
		func() {
			defer func() {
				if r := recover(); r != nil {
					t.Fatalf("%s: translator failed: %v", c.name, r)
				}
			}()
			infos, _, _ := run(filepath.Join(dir, "mappollard.go"))
			for _, mi := range infos {
				if mi.name == "GetNumLeaves" {
					got = mi
				}
			}
		}()
		if got == nil {
			t.Fatalf("%s: method not in the table", c.name)
		}
		regular := got.extraLockOps == 0 && got.lock == "r" && got.deferred
		if regular != c.regular {
			t.Errorf("%s: regular=%v (lock=%s deferred=%v extraLockOps=%d), want %v", c.name, regular, got.lock, got.deferred, got.extraLockOps, c.regular)
		}
	}
}
