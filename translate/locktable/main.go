// Command locktable extracts the lock discipline of the map forest from the Go source.
//
//	locktable /repo/mappollard.go  lean/UtreexoVerif/Gen/LockTable.lean
//
// It parses mappollard.go (and, to resolve two things only, the other non-test files of the
// same directory: the interface through which the receiver is handed to package functions
// such as String(m), and the absence of any other mention of the struct type), enumerates
// ALL methods with receiver *MapPollard and writes, as Lean data over generated enumeration
// types, for each method:
//
//	exported?            first letter upper case
//	lock / lockIndex     the top-level statement `m.rwLock.Lock()` (w) or `RLock()` (r), if any
//	deferred             the lock is held for exactly the rest of the body: the statement right after the
//	                     acquire is `defer m.rwLock.Unlock()/RUnlock()`, or the matching release stands
//	                     immediately before every return / at the end (explicitRelease)
//	extraLockOps         every other operation on the mutex anywhere in the body
//	preReads/preWrites/preCalls   what the statements BEFORE the acquire do
//	reads/writes/calls            what the rest of the body does, DIRECTLY
//	hook                 contains verifPoint(site)
//
// Field accesses: for the interface-typed (map) fields, m.F.Put/Delete are writes and
// m.F.Get/ForEach/Length are reads; for the other fields an assignment / ++ / -- is a write
// and any other mention is a read.  The closure over the call graph is NOT computed here;
// the Lean side does that (Model/Lock.lean, LockDiscipline).
//
// Everything this program does not understand is a fatal error (exit status 1 and a stub
// table that makes the Lean obligation `lockTable_ok` fail): the receiver used in any way
// other than m.field / m.method(...) / F(m) with an interface-typed parameter; a shadowed
// receiver name; a map field used other than through its five methods; &m.field; a method
// value; a `go` statement; a `defer` other than the unlock; a function literal that is not a
// call argument; a value receiver; a function with a MapPollard parameter; a mention of the
// type in another file; an unknown member.  Standard library only.
package main

import (
	"fmt"
	"go/ast"
	"go/parser"
	"go/token"
	"os"
	"path/filepath"
	"sort"
	"strconv"
	"strings"
	"unicode"
)

const structName = "MapPollard"

type fatalErr struct{ msg string }

var fset = token.NewFileSet()

func fatal(pos token.Pos, format string, a ...interface{}) {
	where := ""
	if pos.IsValid() {
		where = fset.Position(pos).String() + ": "
	}
	panic(fatalErr{where + fmt.Sprintf(format, a...)})
}

type oset struct {
	seen map[string]bool
	list []string
}

func (s *oset) add(x string) {
	if s.seen == nil {
		s.seen = map[string]bool{}
	}
	if !s.seen[x] {
		s.seen[x] = true
		s.list = append(s.list, x)
	}
}

type methodInfo struct {
	name         string
	line         int
	exported     bool
	lock         string // none | r | w
	lockIndex    int
	deferred     bool
	extraLockOps int
	preReads     oset
	preWrites    oset
	preCalls     oset
	reads        oset
	writes       oset
	calls        oset
	hook         bool
	sites        []string
	viaIface     []string // package functions the receiver is handed to
}

type world struct {
	lockField  string
	mapFields  map[string]bool
	scalFields map[string]bool
	fieldOrder []string
	methods    map[string]*ast.FuncDecl
	methOrder  []string
	// whole package (all non-test files of the directory)
	pkgFuncs   map[string]*ast.FuncDecl       // package-level functions
	interfaces map[string]*ast.InterfaceType  // named interface types
}

var mapReadMethods = map[string]bool{"Get": true, "ForEach": true, "Length": true}
var mapWriteMethods = map[string]bool{"Put": true, "Delete": true}

func isRWMutexType(e ast.Expr) bool {
	if st, ok := e.(*ast.StarExpr); ok {
		e = st.X
	}
	sel, ok := e.(*ast.SelectorExpr)
	if !ok {
		return false
	}
	x, ok := sel.X.(*ast.Ident)
	return ok && x.Name == "sync" && sel.Sel.Name == "RWMutex"
}

func mentionsStruct(n ast.Node) (found token.Pos) {
	if n == nil {
		return token.NoPos
	}
	ast.Inspect(n, func(x ast.Node) bool {
		if id, ok := x.(*ast.Ident); ok && id.Name == structName && !found.IsValid() {
			found = id.Pos()
		}
		return true
	})
	return
}

func recvTypeName(fd *ast.FuncDecl) (name string, pointer bool) {
	if fd.Recv == nil || len(fd.Recv.List) == 0 {
		return "", false
	}
	t := fd.Recv.List[0].Type
	if st, ok := t.(*ast.StarExpr); ok {
		pointer = true
		t = st.X
	}
	if id, ok := t.(*ast.Ident); ok {
		return id.Name, pointer
	}
	return "?", pointer
}

// ---------------------------------------------------------------- per-method analysis

type walker struct {
	w       *world
	mi      *methodInfo
	recv    *ast.Object
	recvNm  string
	stack   []ast.Node
	pre     bool              // currently in the statements before the acquire
	skip    map[ast.Node]bool // the acquire / deferred-release statements themselves
	lockOps int
}

func (k *walker) parent(up int) ast.Node {
	i := len(k.stack) - 1 - up
	if i < 0 {
		return nil
	}
	return k.stack[i]
}

func (k *walker) read(f string) {
	if k.pre {
		k.mi.preReads.add(f)
	} else {
		k.mi.reads.add(f)
	}
}
func (k *walker) write(f string) {
	if k.pre {
		k.mi.preWrites.add(f)
	} else {
		k.mi.writes.add(f)
	}
}
func (k *walker) call(m string) {
	if k.pre {
		k.mi.preCalls.add(m)
	} else {
		k.mi.calls.add(m)
	}
}

// lockCall recognises  m.rwLock.<Op>()  and returns Op.
func (k *walker) lockCall(e ast.Expr) (string, bool) {
	ce, ok := e.(*ast.CallExpr)
	if !ok || len(ce.Args) != 0 {
		return "", false
	}
	s1, ok := ce.Fun.(*ast.SelectorExpr)
	if !ok {
		return "", false
	}
	s2, ok := s1.X.(*ast.SelectorExpr)
	if !ok || s2.Sel.Name != k.w.lockField {
		return "", false
	}
	id, ok := s2.X.(*ast.Ident)
	if !ok || id.Name != k.recvNm || id.Obj != k.recv {
		return "", false
	}
	return s1.Sel.Name, true
}

// isRecv: the identifier is the receiver variable (fatal if it is a shadowing variable).
func (k *walker) isRecv(id *ast.Ident) bool {
	if k.recv == nil || id.Name != k.recvNm {
		return false
	}
	if id.Obj != k.recv {
		fatal(id.Pos(), "method %s: identifier %q does not denote the receiver here (shadowed): not understood", k.mi.name, id.Name)
	}
	return true
}

func (k *walker) visit(n ast.Node) bool {
	// ast.Inspect: f(n) for a node; if it returns true the children follow and then f(nil)
	if n == nil {
		k.stack = k.stack[:len(k.stack)-1]
		return false
	}
	if k.skip[n] {
		// the acquire statement / the deferred release themselves (recognised pattern)
		k.lockOps++
		return false
	}
	k.process(n)
	k.stack = append(k.stack, n)
	return true
}

// process looks at one node; k.stack holds its ancestors (innermost last).
func (k *walker) process(n ast.Node) {
	switch x := n.(type) {
	case *ast.GoStmt:
		fatal(x.Pos(), "method %s: go statement inside a method: not understood", k.mi.name)
	case *ast.DeferStmt:
		if _, ok := k.lockCall(x.Call); !ok {
			fatal(x.Pos(), "method %s: defer of something other than the mutex unlock: not understood", k.mi.name)
		}
	case *ast.FuncLit:
		if ce, ok := k.parent(0).(*ast.CallExpr); !ok || ce.Fun == ast.Expr(x) {
			fatal(x.Pos(), "method %s: function literal that is not an argument of a call: not understood", k.mi.name)
		}
	case *ast.CallExpr:
		if id, ok := x.Fun.(*ast.Ident); ok && id.Name == "verifPoint" {
			if len(x.Args) != 1 {
				fatal(x.Pos(), "verifPoint with %d arguments", len(x.Args))
			}
			bl, ok := x.Args[0].(*ast.BasicLit)
			if !ok || bl.Kind != token.STRING {
				fatal(x.Pos(), "verifPoint argument is not a string literal")
			}
			site, _ := strconv.Unquote(bl.Value)
			if k.pre {
				fatal(x.Pos(), "method %s: verifPoint(%q) before the lock is taken: not understood", k.mi.name, site)
			}
			k.mi.hook = true
			k.mi.sites = append(k.mi.sites, site)
		}
	case *ast.Ident:
		if k.isRecv(x) {
			k.receiverUse(x)
		}
	}
}

// receiverUse classifies one occurrence of the receiver identifier.
func (k *walker) receiverUse(id *ast.Ident) {
	name := k.mi.name
	p0 := k.parent(0)
	sel, ok := p0.(*ast.SelectorExpr)
	if !ok || sel.X != ast.Expr(id) {
		// the receiver itself as a value: only as an argument F(m) of a package function
		// whose parameter has an interface type declared in the package
		if ce, ok := p0.(*ast.CallExpr); ok {
			if fid, ok := ce.Fun.(*ast.Ident); ok {
				if fd := k.w.pkgFuncs[fid.Name]; fd != nil && (fid.Obj == nil || fid.Obj.Kind == ast.Fun) {
					idx := -1
					for i, a := range ce.Args {
						if a == ast.Expr(id) {
							idx = i
						}
					}
					if pt := paramType(fd, idx); pt != nil {
						if tid, ok := pt.(*ast.Ident); ok {
							if it := k.w.interfaces[tid.Name]; it != nil {
								for _, m := range it.Methods.List {
									if len(m.Names) == 0 {
										fatal(m.Pos(), "embedded interface in %s: not understood", tid.Name)
									}
									for _, nm := range m.Names {
										if k.w.methods[nm.Name] == nil {
											fatal(id.Pos(), "method %s: receiver passed to %s as %s, whose method %s is not a *%s method", name, fid.Name, tid.Name, nm.Name, structName)
										}
										k.call(nm.Name)
									}
								}
								k.mi.viaIface = append(k.mi.viaIface, fid.Name+"("+tid.Name+")")
								return
							}
						}
					}
				}
			}
		}
		fatal(id.Pos(), "method %s: the receiver is used as a value (copied, passed on, compared, dereferenced): not understood", name)
	}
	member := sel.Sel.Name
	p1 := k.parent(1)
	switch {
	case member == k.w.lockField:
		// must be m.rwLock.Op() with Op one of the four
		s2, ok := p1.(*ast.SelectorExpr)
		ce, ok2 := k.parent(2).(*ast.CallExpr)
		if !ok || !ok2 || s2.X != ast.Expr(sel) || ce.Fun != ast.Expr(s2) || len(ce.Args) != 0 {
			fatal(sel.Pos(), "method %s: the mutex is used other than as m.%s.Lock/Unlock/RLock/RUnlock(): not understood", name, member)
		}
		switch s2.Sel.Name {
		case "Lock", "Unlock", "RLock", "RUnlock":
			k.lockOps++
		default:
			fatal(sel.Pos(), "method %s: mutex operation %s: not understood", name, s2.Sel.Name)
		}
	case k.w.mapFields[member]:
		if as, ok := p1.(*ast.AssignStmt); ok && onLHS(as, sel) {
			k.write(member) // the whole map is replaced
			if as.Tok != token.ASSIGN {
				fatal(as.Pos(), "method %s: assignment operator %s on a map field", name, as.Tok)
			}
			return
		}
		s2, ok := p1.(*ast.SelectorExpr)
		ce, ok2 := k.parent(2).(*ast.CallExpr)
		if !ok || !ok2 || s2.X != ast.Expr(sel) || ce.Fun != ast.Expr(s2) {
			fatal(sel.Pos(), "method %s: map field %s is used other than through a method call (aliased / passed on): not understood", name, member)
		}
		switch {
		case mapReadMethods[s2.Sel.Name]:
			k.read(member)
		case mapWriteMethods[s2.Sel.Name]:
			k.write(member)
		default:
			fatal(sel.Pos(), "method %s: %s.%s: unknown map operation", name, member, s2.Sel.Name)
		}
	case k.w.scalFields[member]:
		switch px := p1.(type) {
		case *ast.AssignStmt:
			if onLHS(px, sel) {
				k.write(member)
				if px.Tok != token.ASSIGN {
					if px.Tok == token.DEFINE {
						fatal(px.Pos(), "method %s: := with a field on the left", name)
					}
					k.read(member) // op-assignment
				}
				return
			}
			k.read(member)
		case *ast.IncDecStmt:
			k.read(member)
			k.write(member)
		case *ast.UnaryExpr:
			if px.Op == token.AND {
				fatal(px.Pos(), "method %s: address of field %s taken: not understood", name, member)
			}
			k.read(member)
		case *ast.SelectorExpr:
			fatal(px.Pos(), "method %s: selector on scalar field %s: not understood", name, member)
		case *ast.IndexExpr, *ast.SliceExpr:
			fatal(p1.Pos(), "method %s: indexing field %s: not understood", name, member)
		default:
			k.read(member)
		}
	case k.w.methods[member] != nil:
		ce, ok := p1.(*ast.CallExpr)
		if !ok || ce.Fun != ast.Expr(sel) {
			fatal(sel.Pos(), "method %s: method value m.%s (not called): not understood", name, member)
		}
		k.call(member)
	default:
		fatal(sel.Pos(), "method %s: unknown member %s of the receiver", name, member)
	}
}

func onLHS(as *ast.AssignStmt, e ast.Expr) bool {
	for _, l := range as.Lhs {
		if l == e {
			return true
		}
	}
	return false
}

func paramType(fd *ast.FuncDecl, idx int) ast.Expr {
	if idx < 0 {
		return nil
	}
	i := 0
	for _, f := range fd.Type.Params.List {
		n := len(f.Names)
		if n == 0 {
			n = 1
		}
		if idx < i+n {
			if _, variadic := f.Type.(*ast.Ellipsis); variadic {
				return nil
			}
			return f.Type
		}
		i += n
	}
	return nil
}


// mentionsRecv: the node mentions the receiver variable (function literals included).
func (k *walker) mentionsRecv(n ast.Node) bool {
	found := false
	ast.Inspect(n, func(x ast.Node) bool {
		if id, ok := x.(*ast.Ident); ok && k.recv != nil && id.Name == k.recvNm && id.Obj == k.recv {
			found = true
		}
		return !found
	})
	return found
}

// explicitRelease recognises, in the statements after the acquire, the discipline "the lock
// is released exactly once on every way out of the body and the instance is not touched
// afterwards" written without defer:
//
//   - every return statement is either immediately preceded, in its own block, by the
//     matching release (and its result expressions do not mention the receiver), or lies
//     after a top-level release in statements that do not mention the receiver at all;
//   - if the body can fall off its end (no results, last statement not a return), there is
//     such a top-level release;
//   - there is no other operation on the mutex, and no release that is not of these forms.
//
// It returns the release statements.  (A panic between acquire and release leaves the lock
// held, unlike with defer; a panic is a violation of the property by itself.)
func (k *walker) explicitRelease(rest []ast.Stmt, want string, hasResults bool) ([]ast.Stmt, bool) {
	isRelease := func(st ast.Stmt) bool {
		es, ok := st.(*ast.ExprStmt)
		if !ok {
			return false
		}
		op, ok := k.lockCall(es.X)
		return ok && op == want
	}
	// the first top-level release, if any: everything after it is the tail
	tail := -1
	for i, st := range rest {
		if isRelease(st) {
			// "release; return" at top level is the per-return form, not a tail
			if i+1 < len(rest) {
				if _, isRet := rest[i+1].(*ast.ReturnStmt); isRet {
					continue
				}
			}
			tail = i
			break
		}
	}
	var used []ast.Stmt
	body := rest
	if tail >= 0 {
		for _, st := range rest[tail+1:] {
			if k.mentionsRecv(st) {
				return nil, false
			}
		}
		used = append(used, rest[tail])
		body = rest[:tail]
	}
	ok := true
	var walkList func(list []ast.Stmt)
	var walkStmt func(st ast.Stmt)
	walkList = func(list []ast.Stmt) {
		for i, st := range list {
			if isRelease(st) {
				// must be immediately followed by a return in the same list
				if i+1 < len(list) {
					if rs, isRet := list[i+1].(*ast.ReturnStmt); isRet {
						for _, r := range rs.Results {
							if k.mentionsRecv(r) {
								ok = false
							}
						}
						used = append(used, st)
						continue
					}
				}
				ok = false
				continue
			}
			if _, isRet := st.(*ast.ReturnStmt); isRet {
				if i == 0 || !isRelease(list[i-1]) {
					ok = false // a way out that keeps the lock
				}
				continue
			}
			walkStmt(st)
		}
	}
	walkStmt = func(st ast.Stmt) {
		switch x := st.(type) {
		case *ast.BlockStmt:
			walkList(x.List)
		case *ast.IfStmt:
			walkList(x.Body.List)
			if x.Else != nil {
				walkStmt(x.Else)
			}
		case *ast.ForStmt:
			walkList(x.Body.List)
		case *ast.RangeStmt:
			walkList(x.Body.List)
		case *ast.SwitchStmt:
			for _, c := range x.Body.List {
				walkList(c.(*ast.CaseClause).Body)
			}
		case *ast.TypeSwitchStmt:
			for _, c := range x.Body.List {
				walkList(c.(*ast.CaseClause).Body)
			}
		case *ast.SelectStmt:
			ok = false
		case *ast.LabeledStmt:
			walkStmt(x.Stmt)
		case *ast.BranchStmt:
			if x.Tok == token.GOTO {
				ok = false
			}
		default:
			// simple statements: must not hide a mutex operation (function literals included)
			ast.Inspect(st, func(n ast.Node) bool {
				if e, isE := n.(ast.Expr); isE {
					if _, isLock := k.lockCall(e); isLock {
						ok = false
					}
				}
				return ok
			})
		}
	}
	walkList(body)
	if !ok {
		return nil, false
	}
	if tail < 0 {
		// no tail release: the body must not be able to fall off its end with the lock held
		if len(body) == 0 {
			return nil, false
		}
		if _, isRet := body[len(body)-1].(*ast.ReturnStmt); !isRet {
			return nil, false
		}
	}
	if len(used) == 0 {
		return nil, false
	}
	_ = hasResults
	return used, true
}

func analyse(w *world, fd *ast.FuncDecl) *methodInfo {
	mi := &methodInfo{name: fd.Name.Name, line: fset.Position(fd.Pos()).Line, lock: "none",
		exported: unicode.IsUpper([]rune(fd.Name.Name)[0])}
	if fd.Body == nil {
		fatal(fd.Pos(), "method %s has no body", mi.name)
	}
	k := &walker{w: w, mi: mi, skip: map[ast.Node]bool{}}
	if names := fd.Recv.List[0].Names; len(names) == 1 && names[0].Name != "_" {
		k.recv = names[0].Obj
		k.recvNm = names[0].Name
		if k.recv == nil {
			fatal(fd.Pos(), "method %s: receiver object not resolved", mi.name)
		}
	}
	// parameters must not mention the struct (another instance would be accessed unlocked)
	if p := mentionsStruct(fd.Type); p.IsValid() {
		fatal(p, "method %s has a parameter or result of type %s: not understood", mi.name, structName)
	}
	// the top-level acquire
	stmts := fd.Body.List
	acq := -1
	for i, st := range stmts {
		es, ok := st.(*ast.ExprStmt)
		if !ok {
			continue
		}
		if op, ok := k.lockCall(es.X); ok && (op == "Lock" || op == "RLock") {
			acq = i
			if op == "Lock" {
				mi.lock = "w"
			} else {
				mi.lock = "r"
			}
			break
		}
	}
	recognised := 0
	if acq >= 0 {
		mi.lockIndex = acq
		k.skip[stmts[acq]] = true
		recognised++
		if acq+1 < len(stmts) {
			if ds, ok := stmts[acq+1].(*ast.DeferStmt); ok {
				want := map[string]string{"w": "Unlock", "r": "RUnlock"}[mi.lock]
				if op, ok := k.lockCall(ds.Call); ok && op == want {
					mi.deferred = true
					k.skip[stmts[acq+1]] = true
					recognised++
				}
			}
		}
		if !mi.deferred {
			// the other way to hold the lock for exactly the rest of the body: an explicit
			// release immediately before every return (and before falling off the end)
			want := map[string]string{"w": "Unlock", "r": "RUnlock"}[mi.lock]
			if rel, ok := k.explicitRelease(stmts[acq+1:], want, fd.Type.Results != nil && len(fd.Type.Results.List) > 0); ok {
				mi.deferred = true
				for _, st := range rel {
					k.skip[st] = true
					recognised++
				}
			}
		}
	}
	for i, st := range stmts {
		k.pre = acq >= 0 && i < acq
		k.stack = k.stack[:0]
		ast.Inspect(st, k.visit)
	}
	mi.extraLockOps = k.lockOps - recognised
	if mi.extraLockOps < 0 {
		fatal(fd.Pos(), "method %s: internal error counting mutex operations", mi.name)
	}
	return mi
}

// ---------------------------------------------------------------- whole file / package

func run(src string) ([]*methodInfo, *world, []string) {
	file, err := parser.ParseFile(fset, src, nil, parser.ParseComments)
	if err != nil {
		fatal(token.NoPos, "cannot parse %s: %v", src, err)
	}
	w := &world{mapFields: map[string]bool{}, scalFields: map[string]bool{}, methods: map[string]*ast.FuncDecl{},
		pkgFuncs: map[string]*ast.FuncDecl{}, interfaces: map[string]*ast.InterfaceType{}}

	// the other non-test files of the package
	dir := filepath.Dir(src)
	ents, err := os.ReadDir(dir)
	if err != nil {
		fatal(token.NoPos, "cannot list %s: %v", dir, err)
	}
	files := []*ast.File{file}
	for _, e := range ents {
		n := e.Name()
		if e.IsDir() || !strings.HasSuffix(n, ".go") || strings.HasSuffix(n, "_test.go") || n == filepath.Base(src) {
			continue
		}
		f, err := parser.ParseFile(fset, filepath.Join(dir, n), nil, 0)
		if err != nil {
			fatal(token.NoPos, "cannot parse %s: %v", n, err)
		}
		if f.Name.Name != file.Name.Name {
			continue
		}
		// methods of the struct may live in other files of the package too (they are collected
		// below with the same checks); any OTHER mention there — a type, variable or constant
		// declaration — is code the table does not cover
		for _, d := range f.Decls {
			if gd, ok := d.(*ast.GenDecl); ok && gd.Tok != token.IMPORT {
				if p := mentionsStruct(gd); p.IsValid() {
					fatal(p, "%s is mentioned in a declaration outside %s: code that is not covered by the lock table", structName, filepath.Base(src))
				}
			}
		}
		files = append(files, f)
	}
	for _, f := range files {
		for _, d := range f.Decls {
			switch x := d.(type) {
			case *ast.FuncDecl:
				if x.Recv == nil {
					w.pkgFuncs[x.Name.Name] = x
				}
			case *ast.GenDecl:
				for _, sp := range x.Specs {
					if ts, ok := sp.(*ast.TypeSpec); ok {
						if it, ok := ts.Type.(*ast.InterfaceType); ok {
							w.interfaces[ts.Name.Name] = it
						}
					}
				}
			}
		}
	}

	// the struct
	var st *ast.StructType
	for _, d := range file.Decls {
		gd, ok := d.(*ast.GenDecl)
		if !ok {
			continue
		}
		for _, sp := range gd.Specs {
			ts, ok := sp.(*ast.TypeSpec)
			if ok && ts.Name.Name == structName {
				if s, ok := ts.Type.(*ast.StructType); ok {
					st = s
				} else {
					fatal(ts.Pos(), "%s is not a struct", structName)
				}
			}
		}
	}
	if st == nil {
		fatal(token.NoPos, "type %s not found in %s", structName, src)
	}
	for _, f := range st.Fields.List {
		if len(f.Names) == 0 {
			fatal(f.Pos(), "embedded field in %s: not understood", structName)
		}
		for _, nm := range f.Names {
			switch {
			case isRWMutexType(f.Type):
				if w.lockField != "" {
					fatal(f.Pos(), "%s has more than one RWMutex", structName)
				}
				w.lockField = nm.Name
			default:
				w.fieldOrder = append(w.fieldOrder, nm.Name)
				if id, ok := f.Type.(*ast.Ident); ok && w.interfaces[id.Name] != nil {
					// an interface-typed field must offer exactly the five map operations
					it := w.interfaces[id.Name]
					for _, m := range it.Methods.List {
						for _, mn := range m.Names {
							if !mapReadMethods[mn.Name] && !mapWriteMethods[mn.Name] {
								fatal(m.Pos(), "interface %s of field %s has method %s: not classified as read or write", id.Name, nm.Name, mn.Name)
							}
						}
					}
					w.mapFields[nm.Name] = true
				} else if id, ok := f.Type.(*ast.Ident); ok && (id.Name == "uint64" || id.Name == "uint8" || id.Name == "bool" ||
					id.Name == "int" || id.Name == "uint32" || id.Name == "int64") {
					w.scalFields[nm.Name] = true
				} else {
					fatal(f.Pos(), "field %s has a type this translator does not classify", nm.Name)
				}
			}
		}
	}
	if w.lockField == "" {
		fatal(st.Pos(), "%s has no sync.RWMutex field", structName)
	}

	// methods and the other functions of the file
	var constructors []string
	var allDecls []ast.Decl
	for _, f := range files {
		allDecls = append(allDecls, f.Decls...)
	}
	for _, d := range allDecls {
		fd, ok := d.(*ast.FuncDecl)
		if !ok {
			continue
		}
		rt, ptr := recvTypeName(fd)
		switch {
		case rt == structName && !ptr:
			fatal(fd.Pos(), "method %s has a VALUE receiver (copies the struct and its lock): not understood", fd.Name.Name)
		case rt == structName:
			if w.methods[fd.Name.Name] != nil {
				fatal(fd.Pos(), "duplicate method %s", fd.Name.Name)
			}
			w.methods[fd.Name.Name] = fd
			w.methOrder = append(w.methOrder, fd.Name.Name)
		default:
			// a function or a method of another type: must not receive a MapPollard; it may
			// construct and return one (a value nobody else can see yet)
			if fd.Type.Params != nil {
				if p := mentionsStruct(fd.Type.Params); p.IsValid() {
					fatal(p, "function %s takes a %s parameter: accesses outside the method set are not covered", fd.Name.Name, structName)
				}
			}
			if rt != "" {
				if p := mentionsStruct(fd.Body); p.IsValid() {
					fatal(p, "method %s.%s mentions %s: not understood", rt, fd.Name.Name, structName)
				}
			} else if p := mentionsStruct(fd); p.IsValid() {
				constructors = append(constructors, fd.Name.Name)
			}
		}
	}
	for f := range w.methods {
		if w.mapFields[f] || w.scalFields[f] || f == w.lockField {
			fatal(token.NoPos, "name %s is both a field and a method", f)
		}
	}
	var infos []*methodInfo
	for _, name := range w.methOrder {
		infos = append(infos, analyse(w, w.methods[name]))
	}
	return infos, w, constructors
}

// ---------------------------------------------------------------- Lean output

func q(s string) string { return "«" + s + "»" }

func leanList(xs []string, prefix string) string {
	if len(xs) == 0 {
		return "[]"
	}
	p := make([]string, len(xs))
	for i, x := range xs {
		p[i] = prefix + q(x)
	}
	return "[" + strings.Join(p, ", ") + "]"
}

func emit(src string, infos []*methodInfo, fields []string, constructors []string, lockField string, failure string) string {
	var b strings.Builder
	b.WriteString("/-\n  GENERATED by translate/locktable from " + filepath.Base(src) + " (in the library tree under check) — do not edit.\n")
	b.WriteString("  One row per method with receiver *" + structName + " (exported and unexported), see Model/Lock.lean\n  (MethodInfo) for the meaning of the columns.\n-/\n")
	b.WriteString("import UtreexoVerif.Model.Lock\n\nnamespace UtreexoVerif.Gen.LockTable\nopen UtreexoVerif.Model.Lock\n\n")
	if failure != "" {
		b.WriteString("/-- the translator FAILED; this is a stub that makes `lockTable_ok` unprovable -/\n")
		b.WriteString("def translationOk : Bool := false\n")
		b.WriteString("def translationError : String := " + strconv.Quote(failure) + "\n\n")
	} else {
		b.WriteString("def translationOk : Bool := true\ndef translationError : String := \"\"\n\n")
	}
	b.WriteString("/-- the fields of the struct other than the mutex `" + lockField + "`, in declaration order -/\ninductive Field where\n")
	for _, f := range fields {
		b.WriteString("  | " + q(f) + "\n")
	}
	b.WriteString("  deriving DecidableEq, Repr\n\n")
	b.WriteString("def allFields : List Field := " + leanList(fields, ".") + "\n\n")
	b.WriteString("/-- every method with receiver *" + structName + ", in source order -/\ninductive Method where\n")
	for _, m := range infos {
		b.WriteString("  | " + q(m.name) + "\n")
	}
	b.WriteString("  deriving DecidableEq, Repr\n\n")
	names := make([]string, len(infos))
	for i, m := range infos {
		names[i] = m.name
	}
	b.WriteString("def allMethods : List Method := " + leanList(names, ".") + "\n\n")
	bs := func(x bool) string {
		if x {
			return "true"
		}
		return "false"
	}
	b.WriteString("def table : Method → MethodInfo Field Method\n")
	for _, m := range infos {
		fmt.Fprintf(&b, "  -- line %d\n  | .%s =>\n    { exported := %s, lock := .%s, lockIndex := %d, deferred := %s, extraLockOps := %d\n", m.line, q(m.name),
			bs(m.exported), m.lock, m.lockIndex, bs(m.deferred), m.extraLockOps)
		fmt.Fprintf(&b, "      preReads := %s, preWrites := %s, preCalls := %s\n", leanList(m.preReads.list, "."), leanList(m.preWrites.list, "."), leanList(m.preCalls.list, "."))
		fmt.Fprintf(&b, "      reads := %s, writes := %s\n      calls := %s\n      hook := %s }\n", leanList(m.reads.list, "."), leanList(m.writes.list, "."), leanList(m.calls.list, "."), bs(m.hook))
	}
	b.WriteString("\n/-- names, for the test driver only (never used by a theorem) -/\ndef methodName : Method → String\n")
	for _, m := range infos {
		fmt.Fprintf(&b, "  | .%s => %s\n", q(m.name), strconv.Quote(m.name))
	}
	b.WriteString("\ndef methodOfString? (s : String) : Option Method := allMethods.find? (fun m => methodName m == s)\n\n")
	b.WriteString("/-- the `verifPoint` sites and the method whose body contains each -/\ndef hookSites : List (String × Method) := [")
	first := true
	for _, m := range infos {
		for _, s := range m.sites {
			if !first {
				b.WriteString(", ")
			}
			first = false
			fmt.Fprintf(&b, "(%s, .%s)", strconv.Quote(s), q(m.name))
		}
	}
	b.WriteString("]\n\n")
	sort.Strings(constructors)
	cs := make([]string, len(constructors))
	for i, c := range constructors {
		cs[i] = strconv.Quote(c)
	}
	b.WriteString("/-- functions of the file that build and return a fresh " + structName + " (not yet shared; not in the table) -/\n")
	b.WriteString("def constructors : List String := [" + strings.Join(cs, ", ") + "]\n\n")
	var via []string
	for _, m := range infos {
		for _, v := range m.viaIface {
			via = append(via, strconv.Quote(m.name+" -> "+v))
		}
	}
	b.WriteString("/-- places where the receiver is handed to a package function through an interface (the\ninterface's methods are listed as callees) -/\n")
	b.WriteString("def viaInterface : List String := [" + strings.Join(via, ", ") + "]\n\n")
	b.WriteString("end UtreexoVerif.Gen.LockTable\n")
	return b.String()
}

func main() {
	if len(os.Args) != 3 {
		fmt.Fprintln(os.Stderr, "usage: locktable <mappollard.go> <out.lean>")
		os.Exit(2)
	}
	src, out := os.Args[1], os.Args[2]
	os.Remove(out)
	var text string
	failed := ""
	func() {
		defer func() {
			if r := recover(); r != nil {
				fe, ok := r.(fatalErr)
				if !ok {
					panic(r)
				}
				failed = fe.msg
			}
		}()
		infos, w, constructors := run(src)
		text = emit(src, infos, w.fieldOrder, constructors, w.lockField, "")
	}()
	if failed != "" {
		stub := []*methodInfo{{name: "translationFailed", lock: "none"}}
		text = emit(src, stub, []string{"translationFailed"}, nil, "?", failed)
	}
	if err := os.WriteFile(out, []byte(text), 0o644); err != nil {
		fmt.Fprintln(os.Stderr, "locktable:", err)
		os.Exit(2)
	}
	if failed != "" {
		fmt.Fprintln(os.Stderr, "locktable: NOT UNDERSTOOD: "+failed)
		fmt.Fprintln(os.Stderr, "locktable: wrote a stub table; the Lean obligation lockTable_ok will fail")
		os.Exit(1)
	}
}
