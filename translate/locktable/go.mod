module locktable

go 1.21
