"""Per-property configuration of bin/check: families, relevant observation kinds, theorems."""

FOREST = {'name': 'forest', 'shards': {'quick': 4, 'thorough': 16}, 'seeds': {'quick': 1, 'thorough': 2}}
FORESTEXH = {'name': 'forestexh', 'shards': {'quick': 4, 'thorough': 16}}
ENC = {'name': 'encodings', 'shards': {'quick': 6, 'thorough': 16}, 'seeds': {'quick': 1, 'thorough': 2}}
UNDO = {'name': 'undoredo', 'shards': {'quick': 6, 'thorough': 16}, 'seeds': {'quick': 1, 'thorough': 2}}
ARITH = {'name': 'arith', 'shards': {'quick': 12, 'thorough': 16}}

COMMON_TRUST = [
    'translator /verif/translate/utils2lean + gen_tie.py (Go utils.go -> Lean, re-run every check)',
    'correspondence harness /verif/harness + compiled driver (differential testing, labelled as such)',
    'Lean compiler/runtime only for the executable driver, never for a theorem',
    'SHA-512/256: theorems take collision-freeness as a hypothesis; the Lean implementation is validated against Go on every compared hash',
]

PROPS = {
    'C16': {
        'families': [ARITH],
        'kinds': ['fn:*'],
        'lean_modules': ['UtreexoVerif.Props.C16', 'UtreexoVerif.Props.C16b', 'UtreexoVerif.Props.C16c', 'UtreexoVerif.Props.C16d'],
        'theorems': ['UtreexoVerif.Props.C16.' + t for t in [
            'enc_lt', 'encU_toNat', 'enc_row_lt', 'enc_injective', 'parent_enc', 'leftChild_enc',
            'rightChild_enc', 'detectRow_enc', 'sibling_enc', 'sibling_enc_sib', 'leftSib_enc',
            'rightSib_enc', 'isLeftNiece_enc', 'startPositionAtRow_enc', 'maxPossiblePosAtRow_enc',
            'translatePos_enc', 'treeRows_spec',
            # C16b/c/d: multi-step ancestors/descendants, roots, forest membership, movement, tree detection, proof positions
            'parentMany_enc', 'parentMany_error_iff', 'parentMany_eq_iterate', 'childMany_enc', 'childMany_error_iff',
            'childMany_eq_iterate', 'parentMany_childMany', 'childMany_parentMany', 'rootPosition_enc', 'rootPos_valid',
            'rootExistsOnRow_spec', 'isRootPositionOnRow_enc', 'isRootPosition_enc', 'isRootPositionTotalRows_enc',
            'isRootPositionOnRowTotalRows_enc', 'rootPositions_spec', 'maxPositionAtRow_enc', 'maxPositionAtRow_error_iff',
            'inForest_enc', 'inForest_out_of_range', 'inForest_iff_below_root', 'position_exists', 'isAncestor_enc',
            'removeBit_spec', 'addBit_spec', 'removeBit_addBit', 'addBit_removeBit', 'calcNextPosition_enc',
            'calcNextPosition_error_iff', 'calcPrevPosition_eq', 'calcPrevPosition_enc', 'calcPrev_calcNext', 'calcNext_calcPrev',
            'detectOffset_general', 'detectOffset_error_iff', 'detectOffset_enc', 'detectOffset_of_inForest', 'detectOffset_bits',
            'detectOffset_error_not_exact', 'proofPosition_enc', 'proofPositions_refines', 'proofPositions_spec',
            'proofPositions_nested_fails', 'numRoots_spec', 'rootIdxOnRow_spec', 'getLowestRoot_found', 'getLowestRoot_none',
            'subtreeRow_spec', 'translatePositions_enc']] + ['UtreexoVerif.Tie.tie_Parent', 'UtreexoVerif.Tie.tie_DetectOffset',
            'UtreexoVerif.Tie.tie_calcNextPosition', 'UtreexoVerif.Tie.tie_calcPrevPosition', 'UtreexoVerif.Tie.tie_translatePos',
            'UtreexoVerif.Tie.tie_rootPosition', 'UtreexoVerif.Tie.tie_inForest', 'UtreexoVerif.Tie.tie_isAncestor'],
        'rule': 'fn lines: every utils.go position function evaluated by Go and by the Lean model at the same point; exhaustive for forestRows<=4 (quick) / 6 (thorough), boundary and random 64-bit values up to 255 rows; distinct = distinct (function,arguments) lines',
        'trusted': COMMON_TRUST,
        'assumptions': ['Go int is modelled by unbounded Int (only used on values below 300)'],
    },
    'C03': {
        'families': [{'name': 'verify', 'shards': {'quick': 4, 'thorough': 16}, 'seeds': {'quick': 1, 'thorough': 2}},
                     {'name': 'verifyexh', 'shards': {'quick': 8, 'thorough': 16}}],
        'kinds': ['verify', 'sound', 'pverify'],
        'lean_modules': ['UtreexoVerif.Props.C03', 'UtreexoVerif.Props.C03b'],
        'theorems': ['UtreexoVerif.Props.C03.verify_sound', 'UtreexoVerif.Props.C03.pollardVerify_sound',
                     'UtreexoVerif.Props.C03.mapVerify_sound', 'UtreexoVerif.Proofs.CalcSound.calc_sound'] +
                    ['UtreexoVerif.Props.C03b.' + t for t in ['verify_sound_spec_full', 'pollardVerify_sound_spec_full',
                     'mapVerify_sound_spec_full', 'verify_sound_spec', 'pollardVerify_sound_spec', 'mapVerify_sound_spec',
                     'verify_sound_spec_at']] +
                    ['UtreexoVerif.Proofs.SpecView.specView', 'UtreexoVerif.Proofs.SpecNodes.LeafOK.necessary',
                     'UtreexoVerif.Proofs.SpecNodes.nodes_functional', 'UtreexoVerif.Proofs.SpecNodes.nodeAt_children'],
        'rule': 'adversarial (hashes, targets, proof) triples against reachable states: exhaustive over a small alphabet for forests <= 4 (quick) / 6 (thorough) leaves, structured mutation of honest proofs for larger ones; every verifier result compared with the Lean model of calculateHashes/Verify; every accepted input checked against the specification forest (soundness oracle); non-trivial = accepted',
        'trusted': COMMON_TRUST,
        'assumptions': ['collision-freeness of SHA-512/256 (hypothesis CR of the theorems)'],
    },
    'C04': {
        'families': [{'name': 'verify', 'shards': {'quick': 4, 'thorough': 16}, 'seeds': {'quick': 1, 'thorough': 2}},
                     {'name': 'verifyexh', 'shards': {'quick': 8, 'thorough': 16}}],
        'kinds': ['verify', 'stumpupdate', 'pverify', 'rverify'],
        'lean_modules': ['UtreexoVerif.Props.C04'],
        'theorems': ['UtreexoVerif.Props.C04.' + t for t in ['update_reject_atomic', 'rowFacts', 'calc_total', 'verify_total',
                     'pollardVerify_total', 'mapVerify_total', 'update_total', 'calc_total_uncond', 'verify_total_uncond',
                     'pollardVerify_total_uncond', 'mapVerify_total_uncond', 'update_total_uncond']] +
                    ['UtreexoVerif.Proofs.CalcTotal.calcStep_decr', 'UtreexoVerif.Proofs.CalcTotal.calcLoop_total',
                     'UtreexoVerif.Proofs.CalcTotal.rowCursor_total', 'UtreexoVerif.Proofs.StumpTotal.add_total'],
        'rule': 'same adversarial inputs as C03 (targets up to 2^64-1, duplicates, mismatched lengths, empty and oversized proofs); every call runs under recover and a watchdog; outcomes ok/err/panic/hang compared with the model; the stump left behind by a rejected Update compared with the model (unchanged)',
        'trusted': COMMON_TRUST,
        'assumptions': [],
    },
    'C01': {
        'families': [FOREST, FORESTEXH],
        'kinds': ['roots', 'modifyfail', 'undofail', 'block', 'pdump'],
        'lean_modules': ['UtreexoVerif.Props.C01', 'UtreexoVerif.Props.C01b', 'UtreexoVerif.Props.C01c'],
        'theorems': ['UtreexoVerif.Props.C01.' + t for t in ['run_slots', 'batching_independent', 'roots_run', 'numLeaves_run',
                     'roots_length_popcount', 'roots_length_onesCount64', 'mem_treeRows_iff', 'subtree_without_survivors',
                     'sibling_without_survivors_right', 'sibling_without_survivors_left', 'both_halves_survive', 'collapse_leaves',
                     'root_zero_iff_no_survivors', 'roots_def', 'stump_add_refines', 'stump_add_refines_CR', 'roots_add_one',
                     'stump_update_no_dels_refines', 'stump_update_refines']] +
                    ['UtreexoVerif.Props.C01b.' + t for t in ['stump_del_refines', 'stump_del_order_independent', 'stump_update_full',
                     'stump_update_refines_of_add']],
        'unproved': ['refinement theorems for Pollard (pointer surgery) and MapPollard: correspondence only'],
        'rule': 'per block: roots and leaf count of Stump, Pollard, MapPollard(full/partial x TotalRows configs) compared with the slot specification; non-trivial = at least one leaf; distinct = distinct observation lines',
        'trusted': COMMON_TRUST,
        'assumptions': ['Pollard pointer surgery is not transliterated: its model is the specification forest'],
    },
    'C02': {
        'families': [FOREST, FORESTEXH],
        'kinds': ['prove', 'hverify'],
        'lean_modules': ['UtreexoVerif.Props.C02', 'UtreexoVerif.Props.C16c'],
        'theorems': ['UtreexoVerif.Props.C02.' + t for t in ['honest_proof_verifies', 'honest_proof_verifies_CR', 'mem_touchedIdx',
                     'touchedIdx_sorted', 'every_live_set_provable', 'canon_defined', 'canon_live', 'canon_perm']] +
                    ['UtreexoVerif.Props.C16.proofPositions_spec', 'UtreexoVerif.Props.C16.proofPositions_refines',
                     'UtreexoVerif.Proofs.CalcPlan.plan_run', 'UtreexoVerif.Proofs.SpecPlan.calc_generic'],
        'unproved': ['MapPollard.Prove / Pollard.Prove return Spec.canon: correspondence only (the provers are pointer/map code)'],
        'rule': 'Prove of live leaf subsets in arbitrary request order on Pollard and MapPollard vs the canonical proof defined on the specification forest',
        'trusted': COMMON_TRUST,
        'assumptions': [],
    },
    'C10': {
        'families': [FOREST, FORESTEXH],
        'kinds': ['pos', 'hash', 'count', 'cachedcount', 'pdump'],
        'lean_modules': [],
        'theorems': [],
        'rule': 'GetLeafPosition for every leaf ever added, internal hashes, fresh and zero hashes; GetHash for every position in [0, 2^(rows+1)+3]; tracked counts; non-trivial hash look-up = position holds a node',
        'trusted': COMMON_TRUST,
        'assumptions': [],
    },
    'C11': {
        'families': [FOREST, FORESTEXH],
        'kinds': ['stumpupdate'],
        'lean_modules': ['UtreexoVerif.Props.C11', 'UtreexoVerif.Props.C11del', 'UtreexoVerif.Props.C01b'],
        'theorems': ['UtreexoVerif.Props.C11.' + t for t in ['stump_add_updateData', 'newAddSpec_mem_nodes', 'newAddSpec_added_leaf', 'posFacts']] +
                    ['UtreexoVerif.Props.C01.stump_update_no_dels_refines', 'UtreexoVerif.Proofs.FinalPos.fpos_eq_liftFold'] +
                    ['UtreexoVerif.Props.C11del.' + t for t in ['stump_newDel', 'del_calc_roots', 'pathNodes_are_nodes', 'newDelSpec_sorted',
                     'hashAfter_eq_zero_iff', 'hashAfter_unchanged', 'hashAfter_node']] + ['UtreexoVerif.Props.C01b.stump_update_full'],
        'unproved': [],
        'rule': 'every Stump.Update replayed on the Lean model of stump.go (all UpdateData fields compared)',
        'trusted': COMMON_TRUST,
        'assumptions': [],
    },
    'C05': {
        'families': [ENC],
        'kinds': ['roots', 'modifyfail', 'undofail', 'stumpupdate', 'enc:*'],
        'lean_modules': ['UtreexoVerif.Props.C01b', 'UtreexoVerif.Props.C01c', 'UtreexoVerif.Props.C02'],
        'theorems': ['UtreexoVerif.Props.C01b.stump_del_order_independent', 'UtreexoVerif.Props.C01b.stump_del_refines',
                     'UtreexoVerif.Props.C01b.stump_update_full', 'UtreexoVerif.Props.C01.stump_update_refines',
                     'UtreexoVerif.Props.C02.honest_proof_verifies', 'UtreexoVerif.Props.C02.canon_perm'],
        'unproved': ['Pollard.Modify / MapPollard.Modify apply an accepted block like Forest.modify: correspondence only'],
        'rule': 'every block applied to Stump, Pollard and MapPollard (full/partial, TotalRows configs) in a non-canonical encoding that Verify accepts (permuted target/hash pairs, trailing junk proof hashes, proofs assembled by AddProof / GetProofSubset); roots and leaf counts compared with the specification forest with exactly the named leaves removed; Stump.Update replayed on its Lean model',
        'trusted': COMMON_TRUST,
        'assumptions': [],
    },
    'C06': {
        'families': [UNDO, FORESTEXH],
        'kinds': ['roots', 'pos', 'hash', 'prove', 'count', 'cachedcount', 'pdump', 'modifyfail', 'undofail'],
        'lean_modules': [],
        'theorems': [],
        'rule': 'undo to depth 1..history length and redo on another branch; after every undo roots, leaf count, position of every leaf ever added, every position read and proofs of live subsets compared with the specification forest at the earlier height',
        'trusted': COMMON_TRUST,
        'assumptions': [],
    },
    'C07': {
        'families': [{'name': 'cached', 'shards': {'quick': 8, 'thorough': 16}, 'seeds': {'quick': 1, 'thorough': 2}},
                     {'name': 'cachedexh', 'shards': {'quick': 8, 'thorough': 16}}],
        'kinds': ['cupdate'],
        'lean_modules': [],
        'theorems': [],
        'rule': 'a light client (stump + cached proof + hashes) updated with Proof.Update from block data alone, every remember subset for small blocks and random subsets beyond; after every block what it holds is compared with the canonical proof (Spec.Forest.canon) of (previous leaves - deleted + remembered additions): same (leaf, position) pairs, identical proof hashes, and Verify accepts it',
        'trusted': COMMON_TRUST,
        'assumptions': ['after a deviating Proof.Undo (listed known findings of C08) the harness re-synchronises the client with the canonical proof so that later updates are judged on their own'],
    },
    'C08': {
        'families': [{'name': 'cached', 'shards': {'quick': 8, 'thorough': 16}, 'seeds': {'quick': 1, 'thorough': 2}},
                     {'name': 'cachedexh', 'shards': {'quick': 8, 'thorough': 16}}],
        'kinds': ['cundo'],
        'lean_modules': [],
        'theorems': [],
        'rule': 'after Proof.Undo of the newest block (depth 1..history length, followed by further blocks) what the client holds is compared with the canonical proof at the previous state of (its leaves - the additions of the undone block): no added or invented leaf, no lost leaf, canonical proof hashes, Verify accepts against the previous stump',
        'trusted': COMMON_TRUST,
        'assumptions': [],
    },
}
