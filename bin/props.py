"""Per-property configuration of bin/check: families, relevant observation kinds, theorems."""
import os as _os

FOREST = {'name': 'forest', 'shards': {'quick': 4, 'thorough': 16}, 'seeds': {'quick': 1, 'thorough': 2}}
FORESTEXH = {'name': 'forestexh', 'shards': {'quick': 4, 'thorough': 16}}
ENC = {'name': 'encodings', 'shards': {'quick': 6, 'thorough': 16}, 'seeds': {'quick': 1, 'thorough': 2}}
UNDO = {'name': 'undoredo', 'shards': {'quick': 6, 'thorough': 16}, 'seeds': {'quick': 1, 'thorough': 2}}
ARITH = {'name': 'arith', 'shards': {'quick': 12, 'thorough': 16}}

COMMON_TRUST = [
    'translator /verif/translate/utils2lean + gen_tie.py (Go utils.go -> Lean, re-run every check)',
    'correspondence harness /verif/harness + compiled driver (differential testing, labelled as such)',
    'Lean compiler/runtime only for the executable driver, never for a theorem',
    'SHA-512/256 is not reasoned about: the honest-behaviour theorems assume NZ (the parent hash is never the all-zero hash) and, where the code keys by hash, the finite NodesDistinct/DistinctRun; soundness (C03) is proved in collision-extracting form for every hash type (no hypothesis) next to the idealised CR form; CR is machine-checked to be impossible for a 32-byte hash (cr_hashBytesOK_incompatible); the Lean implementation of SHA is an executable stand-in validated against Go on every compared hash',
]

C09_THEOREMS = ['inv_new', 'inv_fromRootsAt', 'inv_fromRoots', 'getHash_true', 'getHash_none', 'getLeafPosition_some',
                'getLeafPosition_none', 'getLeafPosition_dead', 'roots_eq', 'inv_prune', 'prune_full', 'prove_canon',
                'prove_uncached', 'inv_add_even', 'invCheck_sound', 'C09_partial', 'Example.m5_inv', 'Example.m5g_inv', 'Example.m4_inv']
C09_HELPERS = ['UtreexoVerif.Proofs.MapPrune.getNode_prunePosition_encP', 'UtreexoVerif.Proofs.MapPrune.allowed_nonroot_iff',
               'UtreexoVerif.Proofs.MapPrune.required_nonroot_iff', 'UtreexoVerif.Proofs.MapPrune.keep',
               'UtreexoVerif.Proofs.MapPrune.low_step', 'UtreexoVerif.Proofs.MapPrune.upp_step', 'UtreexoVerif.Proofs.MapPrune.walk',
               'UtreexoVerif.Proofs.MapPrune.inv_pruneOne', 'UtreexoVerif.Proofs.MapProve.leaf_antichain',
               'UtreexoVerif.Proofs.MapProve.posOf_antichain', 'UtreexoVerif.Proofs.MapProve.stored_hashes',
               'UtreexoVerif.Proofs.MapAdd.nodes_add_even', 'UtreexoVerif.Proofs.MapAdd.nodeAt_add_even', 'UtreexoVerif.Proofs.MapAdd.posOf_add_even']
C09_UNPROVED_OLD = ['UtreexoVerif.Props.C09.C09_statement (Inv for every state reachable by honest Modify / Verify(remember) / Ingest / Prune / Undo, and progress): proved are the base cases, the Prune step (C09_partial) and add of one leaf on an even leaf count (inv_add_even); open: preservation by modify (removeSingle surgery, add in the merging case), verifyM/ingest (needs the truth of all hashes computed by calculateHashes) and undo - covered by the correspondence run only']

PHEAP = {'name': 'pollardheap', 'shards': {'quick': 4, 'thorough': 16}, 'seeds': {'quick': 1, 'thorough': 2}}
PHEAP_MODULE = 'UtreexoVerif.Props.PollardHeapC'
PHEAP_THEOREMS = ['UtreexoVerif.Props.PollardHeap.' + t for t in ['abs_new', 'wf_new', 'addOne_refines', 'add_refines',
                  'add_preserves_wf', 'add_from_empty', 'getRoots_refines', 'getHash_refines', 'getHash_spec',
                  'abs_unique_up_to_equiv', 'wfCheck_sound', 'absTrees_sound', 'abs_of_check']] + ['UtreexoVerif.Proofs.PollardHeap.' + t for t in [
                  'loop_spec', 'loop_merge', 'mergeHeap_repr', 'swapNieces_exec', 'updateAunt_unsettled', 'Sub.frame', 'Sub.rehome',
                  'getNodeLoop_walk', 'ReprRoots.det']]
PHEAP_THEOREMS += ['UtreexoVerif.Props.PollardHeapB.' + t for t in ['deleteSingle_refines', 'deleteSingle_leaf_refines', 'deleteRoot_refines', 'removeLoop_refines', 'remove_refines', 'modify_refines', 'getLeafPosition_refines', 'prove_refines', 'verify_refines', 'queries_partial', 'undoSingleAdd_refines', 'undoAdds_refines', 'undoSingleDel_aunt_refines', 'Example.modify_refines_statement_false', 'Example.queries_statement_false']]
PHEAP_THEOREMS += ['UtreexoVerif.Props.PollardHeapC.' + t for t in ['undo_refines', 'undo_abs', 'modify_undo_observables', 'undoEmptyRoots_refines', 'undoSingleDel_root_refines', 'undoSingleDel_refines', 'undoDels_prefix_refines', 'undoDels_refines', 'undo_rest', 'Example.undo_refines_statement_false', 'Example.undo_rest_statement_false']]
PHEAP_UNPROVED = ['pointer forests with full = false (prune deletes nodes) are not covered by the heap-model theorems; not reachable in the Go code: the field is unexported and NewAccumulator (the only constructor, also used by RestorePollardFrom) always sets it to true (pollard.go: "the code just doesn\'t support it"); 12-byte NodeMap key collisions are out of scope']
C09_UNPROVED = ['Props.C09.C09_statement as first written is FALSE (a from-roots start may contain a live leaf whose hash equals an inner node hash: Finding.C09_fails_leaf_is_node, replayed on Go; needs a hash collision); proved: C09_reach = the same closure with the hygiene hypothesis (live leaves distinct, non-zero, not parent hashes)']
PROPS = {
    'C16': {
        'utils_tie': 'required',
        'families': [ARITH],
        'kinds': ['fn:*'],
        'lean_modules': ['UtreexoVerif.Props.C16', 'UtreexoVerif.Props.C16b', 'UtreexoVerif.Props.C16c', 'UtreexoVerif.Props.C16d'],
        'theorems': ['UtreexoVerif.Props.C16.' + t for t in [
            'enc_lt', 'encU_toNat', 'enc_row_lt', 'enc_injective', 'parent_enc', 'leftChild_enc',
            'rightChild_enc', 'detectRow_enc', 'sibling_enc', 'sibling_enc_sib', 'leftSib_enc',
            'rightSib_enc', 'isLeftNiece_enc', 'startPositionAtRow_enc', 'maxPossiblePosAtRow_enc',
            'translatePos_enc', 'treeRows_spec',
            # C16b/c/d: multi-step ancestors/descendants, roots, forest membership, movement, tree detection, proof positions
            'parentMany_enc', 'parentMany_error_iff', 'parentMany_eq_iterate', 'childMany_enc', 'childMany_error_iff',
            'childMany_eq_iterate', 'parentMany_childMany', 'childMany_parentMany', 'rootPosition_enc', 'rootPos_valid',
            'rootExistsOnRow_spec', 'isRootPositionOnRow_enc', 'isRootPosition_enc', 'isRootPositionTotalRows_enc',
            'isRootPositionOnRowTotalRows_enc', 'rootPositions_spec', 'maxPositionAtRow_enc', 'maxPositionAtRow_error_iff',
            'inForest_enc', 'inForest_out_of_range', 'inForest_iff_below_root', 'position_exists', 'isAncestor_enc',
            'removeBit_spec', 'addBit_spec', 'removeBit_addBit', 'addBit_removeBit', 'calcNextPosition_enc',
            'calcNextPosition_error_iff', 'calcPrevPosition_eq', 'calcPrevPosition_enc', 'calcPrev_calcNext', 'calcNext_calcPrev',
            'detectOffset_general', 'detectOffset_error_iff', 'detectOffset_enc', 'detectOffset_of_inForest', 'detectOffset_bits',
            'detectOffset_error_not_exact', 'proofPosition_enc', 'proofPositions_refines', 'proofPositions_spec',
            'proofPositions_nested_fails', 'proofPositions_spec_all', 'proofPositions_spec_all_u64', 'proofPositions_nested_repaired', 'numRoots_spec', 'rootIdxOnRow_spec', 'getLowestRoot_found', 'getLowestRoot_none',
            'subtreeRow_spec', 'translatePositions_enc']] + ['UtreexoVerif.Tie.tie_Parent', 'UtreexoVerif.Tie.tie_DetectOffset',
            'UtreexoVerif.Tie.tie_calcNextPosition', 'UtreexoVerif.Tie.tie_calcPrevPosition', 'UtreexoVerif.Tie.tie_translatePos',
            'UtreexoVerif.Tie.tie_rootPosition', 'UtreexoVerif.Tie.tie_inForest', 'UtreexoVerif.Tie.tie_isAncestor'],
        'rule': 'fn lines: every utils.go position function evaluated by Go and by the Lean model at the same point; exhaustive for forestRows<=4 (quick) / 6 (thorough), boundary and random 64-bit values up to 255 rows; distinct = distinct (function,arguments) lines',
        'trusted': COMMON_TRUST,
        'assumptions': ['Go int is modelled by unbounded Int (only used on values below 300)'],
    },
    'C03': {
        'families': [{'name': 'verify', 'shards': {'quick': 4, 'thorough': 16}, 'seeds': {'quick': 1, 'thorough': 2}},
                     {'name': 'verifyexh', 'shards': {'quick': 8, 'thorough': 16}}],
        'kinds': ['verify', 'sound', 'pverify'],
        'lean_modules': ['UtreexoVerif.Props.C03', 'UtreexoVerif.Props.C03b', 'UtreexoVerif.Props.C03c', 'UtreexoVerif.Props.C03x', 'UtreexoVerif.Props.C03xc'],
        'theorems': ['UtreexoVerif.Props.C03x.' + t for t in ['verify_sound_extract', 'verify_sound_extract_strong', 'verify_sound_extract_full', 'verify_sound_extract_at', 'pollardVerify_sound_extract', 'mapVerify_sound_extract', 'verify_extracts', 'collision_iff_findCollision', 'verify_sound_extract_leafOK', 'verify_sound_extract_hyg', 'collision_iff_foreign_pair', 'ForestHyg.of_CR', 'not_collision_of_CR', 'verify_sound_of_CR', 'pollardVerify_sound_of_CR', 'mapVerify_sound_of_CR', 'verify_sound_spec_statement_of_extract', 'stump_delSt_sound_extract', 'stump_update_sound_extract', 'trueClaim_iff', 'Example.not_CR', 'Example.acceptedB', 'Example.falseB', 'Example.collisionB', 'Example.collisionB_witness', 'Example.confusion', 'Example.two_disjuncts_insufficient', 'Example.trueA', 'Example.no_collisionA']] + ['UtreexoVerif.Props.C03xc.' + t for t in ['mapVerify_sound_any_extract', 'mapVerify_sound_below_extract', 'mapVerifyPartialProof_sound_extract', 'verifyM_sound_extract', 'verifyPartialProof_sound_extract', 'verifyPartialProof_sound_inv_below_extract', 'mapVerifyPartialProof_sound_statement_of_extract', 'Example.partial_collision']] + ['UtreexoVerif.Proofs.CalcSoundX.calculateHashesX_fst', 'UtreexoVerif.Proofs.CalcSoundX.calc_sound_x'] + ['UtreexoVerif.Props.C03.verify_sound', 'UtreexoVerif.Props.C03.pollardVerify_sound',
                     'UtreexoVerif.Props.C03.mapVerify_sound', 'UtreexoVerif.Proofs.CalcSound.calc_sound'] +
                    ['UtreexoVerif.Props.C03b.' + t for t in ['verify_sound_spec_full', 'pollardVerify_sound_spec_full',
                     'mapVerify_sound_spec_full', 'verify_sound_spec', 'pollardVerify_sound_spec', 'mapVerify_sound_spec',
                     'verify_sound_spec_at']] +
                    ['UtreexoVerif.Props.C03c.' + t for t in ['mapVerify_sound_any', 'mapVerify_eq', 'mapVerify_sound_below',
                     'mapVerify_accepts_exact', 'mapVerify_sound_at_totalRows', 'not_trueClaim_of_ge', 'mapVerifyPartialProof_sound',
                     'verifyM_sound', 'verifyPartialProof_sound', 'verifyPartialProof_sound_inv_eq', 'verifyPartialProof_sound_inv_below',
                     'verifyPartialProof_false', 'Finding.accepted', 'Finding.accepted63', 'Finding.claim_false']] +
                    ['UtreexoVerif.Proofs.SpecView.specView', 'UtreexoVerif.Proofs.SpecNodes.LeafOK.necessary',
                     'UtreexoVerif.Proofs.SpecNodes.nodes_functional', 'UtreexoVerif.Proofs.SpecNodes.nodeAt_children'],
        'rule': 'adversarial (hashes, targets, proof) triples against reachable states: exhaustive over a small alphabet for forests <= 4 (quick) / 6 (thorough) leaves, structured mutation of honest proofs for larger ones; every verifier result compared with the Lean model of calculateHashes/Verify; every accepted input checked against the specification forest (soundness oracle); non-trivial = accepted',
        'trusted': COMMON_TRUST,
        'assumptions': ['none on the hash for the extracting theorems (verify_sound_extract …: accepted => claims true or an explicit collision among the hashed pairs and the forest nodes); the CR-form theorems (verify_sound, …) assume the idealisation CR and are corollaries'],
    },
    'C04': {
        'families': [{'name': 'verify', 'shards': {'quick': 4, 'thorough': 16}, 'seeds': {'quick': 1, 'thorough': 2}},
                     {'name': 'verifyexh', 'shards': {'quick': 8, 'thorough': 16}}],
        'kinds': ['verify', 'stumpupdate', 'pverify', 'rverify'],
        'lean_modules': ['UtreexoVerif.Props.C04', 'UtreexoVerif.Props.C04b'],
        'theorems': ['UtreexoVerif.Props.C04.' + t for t in ['update_reject_atomic', 'rowFacts', 'calc_total', 'verify_total',
                     'pollardVerify_total', 'mapVerify_total', 'update_total', 'calc_total_uncond', 'verify_total_uncond',
                     'pollardVerify_total_uncond', 'mapVerify_total_uncond', 'update_total_uncond']] +
                    ['UtreexoVerif.Props.C04b.' + t for t in ['mapVerifyPartialProof_total', 'verifyM_false_total', 'verifyPartialProof_false_total',
                     'ingest_ok', 'verifyM_total', 'verifyPartialProof_total', 'verifyPartialProof_verdict', 'verifyM_total_inv',
                     'verifyPartialProof_total_inv']] + ['UtreexoVerif.Proofs.IngestBound.accepted_targets', 'UtreexoVerif.Proofs.IngestBound.proofPositions_any'] +
                    ['UtreexoVerif.Proofs.CalcTotal.calcStep_decr', 'UtreexoVerif.Proofs.CalcTotal.calcLoop_total',
                     'UtreexoVerif.Proofs.CalcTotal.rowCursor_total', 'UtreexoVerif.Proofs.StumpTotal.add_total'],
        'rule': 'same adversarial inputs as C03 (targets up to 2^64-1, duplicates, mismatched lengths, empty and oversized proofs); every call runs under recover and a watchdog; outcomes ok/err/panic/hang compared with the model; the stump left behind by a rejected Update compared with the model (unchanged)',
        'trusted': COMMON_TRUST,
        'assumptions': [],
    },
    'C01': {
        'families': [FOREST, FORESTEXH, PHEAP],
        'kinds': ['roots', 'modifyfail', 'undofail', 'block', 'pdump', 'ph:*'],
        'lean_modules': ['UtreexoVerif.Props.C01', 'UtreexoVerif.Props.C01b', 'UtreexoVerif.Props.C01c', 'UtreexoVerif.Props.C01d', PHEAP_MODULE, 'UtreexoVerif.Props.C09c', 'UtreexoVerif.Props.NZ'],
        'theorems': ['UtreexoVerif.Props.NZ.nzB8', 'UtreexoVerif.Props.NZ.not_CR', 'UtreexoVerif.Props.NZ.nz_hashBytesOK_compatible'] + ['UtreexoVerif.Props.C01.' + t for t in ['run_slots', 'batching_independent', 'roots_run', 'numLeaves_run',
                     'roots_length_popcount', 'roots_length_onesCount64', 'mem_treeRows_iff', 'subtree_without_survivors',
                     'sibling_without_survivors_right', 'sibling_without_survivors_left', 'both_halves_survive', 'collapse_leaves',
                     'root_zero_iff_no_survivors', 'roots_def', 'stump_add_refines', 'stump_add_refines_CR', 'roots_add_one',
                     'stump_update_no_dels_refines', 'stump_update_refines', 'stump_refines_history', "stump_refines_history'",
                     'stump_refines_history_from', 'stump_batching_independent', 'stump_encoding_independent']] +
                    ['UtreexoVerif.Props.C01b.' + t for t in ['stump_del_refines', 'stump_del_order_independent', 'stump_update_full',
                     'stump_update_refines_of_add']] + PHEAP_THEOREMS + ['UtreexoVerif.Props.C09b.inv_modify', 'UtreexoVerif.Props.C09b.C09_reach', 'UtreexoVerif.Props.C09c.C01_full', 'UtreexoVerif.Props.C09c.C09_reach_full', 'UtreexoVerif.Props.C09c.roots_full'],
        'unproved': PHEAP_UNPROVED,
        'rule': 'per block: roots and leaf count of Stump, Pollard, MapPollard(full/partial x TotalRows configs) compared with the slot specification; non-trivial = at least one leaf; distinct = distinct observation lines',
        'trusted': COMMON_TRUST,
        'assumptions': ['Pollard pointer surgery: transliterated on an explicit heap (Model/PollardHeap) and proved to refine the specification forest for full = true'],
    },
    'C02': {
        'families': [FOREST, FORESTEXH, PHEAP],
        'kinds': ['prove', 'hverify', 'ph:*'],
        'lean_modules': ['UtreexoVerif.Props.C02', 'UtreexoVerif.Props.C16c', PHEAP_MODULE, 'UtreexoVerif.Props.C09c', 'UtreexoVerif.Props.NZ'],
        'theorems': ['UtreexoVerif.Props.NZ.nzB8', 'UtreexoVerif.Props.NZ.not_CR', 'UtreexoVerif.Props.NZ.nz_hashBytesOK_compatible'] + ['UtreexoVerif.Props.C02.' + t for t in ['honest_proof_verifies', 'honest_proof_verifies_CR', 'mem_touchedIdx',
                     'touchedIdx_sorted', 'every_live_set_provable', 'canon_defined', 'canon_live', 'canon_perm']] +
                    ['UtreexoVerif.Props.C16.proofPositions_spec', 'UtreexoVerif.Props.C16.proofPositions_spec_all', 'UtreexoVerif.Props.C16.proofPositions_refines',
                     'UtreexoVerif.Proofs.CalcPlan.plan_run', 'UtreexoVerif.Proofs.SpecPlan.calc_generic', 'UtreexoVerif.Props.PollardHeapB.prove_refines', 'UtreexoVerif.Props.PollardHeapB.verify_refines', 'UtreexoVerif.Props.C09.prove_canon', 'UtreexoVerif.Props.C09c.prove_full', 'UtreexoVerif.Props.C09c.finv_verify', 'UtreexoVerif.Props.C09b.inv_verify'],
        'unproved': [],
        'rule': 'Prove of live leaf subsets in arbitrary request order on Pollard and MapPollard vs the canonical proof defined on the specification forest',
        'trusted': COMMON_TRUST,
        'assumptions': [],
    },
    'C10': {
        'families': [FOREST, FORESTEXH, PHEAP],
        'kinds': ['pos', 'posbatch', 'hash', 'count', 'cachedcount', 'pdump', 'pollardhash', 'ph:*'],
        'lean_modules': ['UtreexoVerif.Props.C10', PHEAP_MODULE, 'UtreexoVerif.Props.C09c', 'UtreexoVerif.Props.NZ'],
        'theorems': ['UtreexoVerif.Props.NZ.nzB8', 'UtreexoVerif.Props.NZ.not_CR', 'UtreexoVerif.Props.NZ.nz_hashBytesOK_compatible', 'UtreexoVerif.Props.C10.getLeafPosition_calculatePosition_nd', 'UtreexoVerif.Proofs.PollardCalcPos.roots_distinct_nd', 'UtreexoVerif.Spec.nodes_leaf_hash_unique', 'UtreexoVerif.Spec.nodesDistinct_of_CR'] + ['UtreexoVerif.Props.C10.' + t for t in ['posOf_eq_some_iff', 'posOf_eq_none_iff', 'posOf_nodeAt', 'posOf_live_unique',
                     'posOf_internal_node', 'liveLeaves_run', 'posOf_deleted', 'posOf_never_added', 'posOf_live', 'posOf_run_isSome_iff',
                     'getLeafPosition_found_iff', 'getLeafPosition_eq', 'getLeafPosition_not_found', 'getLeafPosition_run',
                     'pollardGetHash_spec', 'pollardGetHashNiece_spec', 'getNodeHash_spec', 'getNode_niece_eq_child',
                     'pollardGetHashNiece_eq', 'getHash_node', 'getHash_rootPos', 'getHash_not_a_position', 'nodeAt_outside',
                     'getHash_outside', 'nodeAt_none_iff', 'nodeAt_below_leaf_none', 'getHash_vacated', 'getHash_getLeafPosition',
                     'trackedCount_run', 'trackedCount_run_gen', 'trackedCount_eq_numLeaves_sub_dels', 'calculatePosition_node',
                     'roots_distinct', 'getLeafPosition_calculatePosition']] + ['UtreexoVerif.Props.PollardHeap.getHash_refines', 'UtreexoVerif.Props.PollardHeap.getHash_spec', 'UtreexoVerif.Props.PollardHeapB.getLeafPosition_refines', 'UtreexoVerif.Props.C09b.lookups_reachU', 'UtreexoVerif.Props.C09c.lookups_reach_full', 'UtreexoVerif.Props.C09c.getHash_full', 'UtreexoVerif.Props.C09c.getLeafPosition_full'],
        'unproved': ['the "not stored" clause for positions a partial forest does not keep: part of Inv (required ⊆ stored ⊆ allowed), look-ups of unstored positions return the zero hash (getHash_none)'],
        'rule': 'GetLeafPosition for every leaf ever added, internal hashes, fresh and zero hashes; GetHash for every position in [0, 2^(rows+1)+3]; tracked counts; non-trivial hash look-up = position holds a node',
        'trusted': COMMON_TRUST,
        'assumptions': [],
    },
    'C11': {
        'families': [FOREST, FORESTEXH],
        'kinds': ['stumpupdate'],
        'lean_modules': ['UtreexoVerif.Props.C11', 'UtreexoVerif.Props.C11del', 'UtreexoVerif.Props.C01b', 'UtreexoVerif.Props.C11b', 'UtreexoVerif.Props.NZ'],
        'theorems': ['UtreexoVerif.Props.NZ.nzB8', 'UtreexoVerif.Props.NZ.not_CR', 'UtreexoVerif.Props.NZ.nz_hashBytesOK_compatible', 'UtreexoVerif.Props.C11.stump_add_updateData_nd', 'UtreexoVerif.Props.C11.stump_add_dataSpec_nd', 'UtreexoVerif.Props.C11.stump_update_data_nd', 'UtreexoVerif.Props.C11.stump_update_data_history_nd'] + ['UtreexoVerif.Props.C11.' + t for t in ['stump_add_updateData', 'newAddSpec_mem_nodes', 'newAddSpec_added_leaf', 'posFacts']] +
                    ['UtreexoVerif.Props.C01.stump_update_no_dels_refines', 'UtreexoVerif.Proofs.FinalPos.fpos_eq_liftFold'] +
                    ['UtreexoVerif.Props.C11del.' + t for t in ['stump_newDel', 'del_calc_roots', 'pathNodes_are_nodes', 'newDelSpec_sorted',
                     'hashAfter_eq_zero_iff', 'hashAfter_unchanged', 'hashAfter_node']] + ['UtreexoVerif.Props.C01b.stump_update_full',
                     'UtreexoVerif.Props.C11.stump_update_data', "UtreexoVerif.Props.C11.stump_update_data'", 'UtreexoVerif.Props.C11.stump_update_data_history'],
        'unproved': [],
        'rule': 'every Stump.Update replayed on the Lean model of stump.go (all UpdateData fields compared)',
        'trusted': COMMON_TRUST,
        'assumptions': [],
    },
    'C05': {
        'families': [ENC],
        'kinds': ['roots', 'modifyfail', 'undofail', 'stumpupdate', 'enc:*'],
        'lean_modules': ['UtreexoVerif.Props.C01b', 'UtreexoVerif.Props.C01c', 'UtreexoVerif.Props.C02', 'UtreexoVerif.Props.C01d', 'UtreexoVerif.Props.C09c', 'UtreexoVerif.Props.PollardHeapC'],
        'theorems': ['UtreexoVerif.Props.C01.stump_encoding_independent', 'UtreexoVerif.Props.C01b.stump_del_order_independent', 'UtreexoVerif.Props.C01b.stump_del_refines',
                     'UtreexoVerif.Props.C01b.stump_update_full', 'UtreexoVerif.Props.C01.stump_update_refines',
                     'UtreexoVerif.Props.C02.honest_proof_verifies', 'UtreexoVerif.Props.C02.canon_perm', 'UtreexoVerif.Props.PollardHeapB.modify_refines', 'UtreexoVerif.Props.C09b.modify_encoding_independent', 'UtreexoVerif.Props.C09b.inv_modify', 'UtreexoVerif.Props.C09c.finv_modify_any_order'],
        'unproved': [],
        'rule': 'every block applied to Stump, Pollard and MapPollard (full/partial, TotalRows configs) in a non-canonical encoding that Verify accepts (permuted target/hash pairs, trailing junk proof hashes, proofs assembled by AddProof / GetProofSubset); roots and leaf counts compared with the specification forest with exactly the named leaves removed; Stump.Update replayed on its Lean model',
        'trusted': COMMON_TRUST,
        'assumptions': [],
    },
    'C06': {
        'families': [UNDO, FORESTEXH, PHEAP],
        'kinds': ['roots', 'pos', 'posbatch', 'hash', 'prove', 'count', 'cachedcount', 'pdump', 'modifyfail', 'undofail', 'ph:*'],
        'lean_modules': ['UtreexoVerif.Props.C06', PHEAP_MODULE, 'UtreexoVerif.Props.C09c'],
        'theorems': ['UtreexoVerif.Props.C06.' + t for t in ['isUndo_of_modify', 'addsAlive_modify', 'undo_unique', 'undo_unique_slots',
                     'prevRoots_redundant', 'undo_spec', 'undo_congr', 'undo_modify', 'undo_modify_observables', 'undoMany_run',
                     'undo_suffix', 'undo_last_k', 'redo_after_undo', 'Example.slot_uniqueness_false',
                     'Example.undo_unique_literal_false', 'Example.no_slot_level_undo', 'Example.prevRoots_needed']] + ['UtreexoVerif.Props.C09b.inv_undo', 'UtreexoVerif.Props.C09c.finv_undo', 'UtreexoVerif.Props.PollardHeapB.undoAdds_refines', 'UtreexoVerif.Props.PollardHeapB.undoSingleDel_aunt_refines', 'UtreexoVerif.Props.PollardHeapC.undo_refines', 'UtreexoVerif.Props.PollardHeapC.modify_undo_observables'],
        'unproved': [],
        'rule': 'undo to depth 1..history length and redo on another branch; after every undo roots, leaf count, position of every leaf ever added, every position read and proofs of live subsets compared with the specification forest at the earlier height',
        'trusted': COMMON_TRUST,
        'assumptions': [],
    },
    'C07': {
        'families': [{'name': 'cached', 'shards': {'quick': 8, 'thorough': 16}, 'seeds': {'quick': 1, 'thorough': 2}},
                     {'name': 'cachedexh', 'shards': {'quick': 8, 'thorough': 16}}],
        'kinds': ['cupdate', 'pupdate*'],
        'dist_kinds': ['dist:pupdate'],
        'lean_modules': ['UtreexoVerif.Props.C07b', 'UtreexoVerif.Props.C07', 'UtreexoVerif.Props.NZ'],
        'theorems': ['UtreexoVerif.Props.NZ.nzB8', 'UtreexoVerif.Props.NZ.not_CR', 'UtreexoVerif.Props.NZ.nz_hashBytesOK_compatible', 'UtreexoVerif.Props.C07.proofUpdate_with_stump_nd', 'UtreexoVerif.Props.C07.client_from_nd', 'UtreexoVerif.Props.C07.client_history_nd', 'UtreexoVerif.Props.C07.client_history_every_step_nd', 'UtreexoVerif.Props.NZ.histR_distinct'] + ['UtreexoVerif.Props.C07b.' + t for t in ['proofUpdate_no_err_no_hang', 'updateProofRemove_total', 'updateProofAdd_total', 'proofUpdate_total']] +
                    ['UtreexoVerif.Props.C07.' + t for t in ['deletion_movement_posOf', 'deletion_movement_nodeAt', 'deletion_movement_surj',
                     'deTwin_maximal_deleted', 'getNewPositions_movement', 'updateProofRemove_canonical', 'updateProofAdd_canonical',
                     'proofUpdate_canonical', 'proofUpdate_with_stump', 'client_history', 'C07_history', 'client_history_every_step',
                     'Example.unsorted_remembers_drop']],
        'unproved': [],
        'rule': 'a light client (stump + cached proof + hashes) updated with Proof.Update from block data alone, every remember subset for small blocks and random subsets beyond; after every block what it holds is compared with the canonical proof (Spec.Forest.canon) of (previous leaves - deleted + remembered additions): same (leaf, position) pairs, identical proof hashes, and Verify accepts it',
        'trusted': COMMON_TRUST,
        'assumptions': ['after a deviating Proof.Undo (listed known findings of C08) the harness re-synchronises the client with the canonical proof so that later updates are judged on their own'],
    },
    'C08': {
        'families': [{'name': 'cached', 'shards': {'quick': 8, 'thorough': 16}, 'seeds': {'quick': 1, 'thorough': 2}},
                     {'name': 'cachedexh', 'shards': {'quick': 8, 'thorough': 16}}],
        'kinds': ['cundo', 'pundo*'],
        'dist_kinds': ['dist:pundo'],
        'lean_modules': ['UtreexoVerif.Props.C08', 'UtreexoVerif.Props.C08b', 'UtreexoVerif.Props.NZ'],
        'theorems': ['UtreexoVerif.Props.NZ.nzB8', 'UtreexoVerif.Props.NZ.not_CR', 'UtreexoVerif.Props.NZ.nz_hashBytesOK_compatible', 'UtreexoVerif.Props.C08b.C08_nd', 'UtreexoVerif.Props.C08b.update_then_undo_nd', 'UtreexoVerif.Props.C08b.client_history_undo_last_nd', 'UtreexoVerif.Props.C08.client_from_nodup_nd'] + ['UtreexoVerif.Props.C08.' + t for t in ['C08_fails_emptyRootsOverwritten', 'C08_fails_toEmpty', 'proofUndoAdd_canonical',
                     'proofUndoDel_canonical', 'proofUndo_canonical_partial', 'C08_partial', 'undone_no_added_leaf', 'undone_no_invented_leaf',
                     'undone_keeps_live_leaves', 'undone_exactly', 'undone_proof_verifies', 'update_then_undo_partial',
                     'client_history_undo_last_partial']] +
                    ['UtreexoVerif.Props.C08b.' + t for t in ['C08', 'proofUndoAdd_canonical', 'proofUndo_canonical', 'destroySpec_of_addData', 'update_then_undo', 'client_history_undo_last']],
        'unproved': [],
        'rule': 'after Proof.Undo of the newest block (depth 1..history length, followed by further blocks) what the client holds is compared with the canonical proof at the previous state of (its leaves - the additions of the undone block): no added or invented leaf, no lost leaf, canonical proof hashes, Verify accepts against the previous stump',
        'trusted': COMMON_TRUST,
        'assumptions': [],
    },
    'C12': {
        'families': [{'name': 'conc', 'shards': {'quick': 6, 'thorough': 16}, 'seeds': {'quick': 1, 'thorough': 4}},
                     {'name': 'conclin', 'shards': {'quick': 10, 'thorough': 16}, 'seeds': {'quick': 1, 'thorough': 2}},
                     {'name': 'conclinrd', 'shards': {'quick': 12, 'thorough': 16}, 'seeds': {'quick': 1, 'thorough': 2}}],
        'race': True,
        'kinds': ['conc:*', 'concw:*', 'concstress:*', 'conclin:*'],
        'dist_kinds': ['dist:conclin'],
        'obligation_kinds': ['conc:table'],
        'regenerate': [
            {'what': 'translator locktable does not build',
             'cmd': ['go', 'build', '-C', 'translate/locktable', '-o', '../../.work/bin/locktable', '.']},
            {'what': 'translate/locktable does not understand mappollard.go (lock table not established; a stub table was written, lockTable_ok fails)',
             'cmd': ['.work/bin/locktable', '{REPO}/mappollard.go', 'lean/UtreexoVerif/Gen/LockTable.lean']},
        ],
        'tie_modules': ['UtreexoVerif.Props.C12Table', 'UtreexoVerif.Props.C12Single'],
        'lean_modules': ['UtreexoVerif.Props.C12'],
        'theorems': ['UtreexoVerif.Props.C12.' + t for t in ['C12_of_discipline', 'discipline_sound', 'discipline_wf', 'raceFree', 'atomic',
                     'reader_sees_whole_block', 'reader_view_stable', 'writer_excludes', 'others_blocked_while_writer_inside', 'deadlockFree', 'immutable_const',
                     'Examples.unlocked_getter_races', 'Examples.reentrancy_deadlocks', 'Examples.split_block_is_visible']] +
                    ['UtreexoVerif.Props.C12Single.' + t for t in ['real_single_section_strong', 'real_calls_single_section', 'real_exported_lock', 'real_call_shape', 'single_section_call', 'single_section_locked', 'single_section_locked_counts', 'single_section_unlocked', 'acquire_not_single', 'not_single_many_acquires', 'single_section_call_statement_false', 'PreGap.preGap', 'FuelGap.fuelGap', 'Negative.both_two_sections']] + ['UtreexoVerif.Props.C12Table.' + t for t in ['C12', 'translation_ok', 'allMethods_complete', 'lockTable_ok', 'queries_single_section',
                     'full_immutable', 'hooks_in_write_sections', 'Examples.getNumLeaves_api', 'Examples.modifyOnce_api']] +
                    ['UtreexoVerif.Proofs.Lock.' + t for t in ['mutual_exclusion', 'threadsOK_step', 'lockInv_step', 'atomic_step',
                     'frozen_step', 'inv_reachable', 'gen_wf', 'apiProg_wf']],
        'rule': 'lock table regenerated from mappollard.go and checked by kernel evaluation (lockTable_ok); runtime half under the Go race detector: at every verifPoint site (6 sites, Modify/Undo/Ingest/Verify(remember)/Prune/Read as writer, full and partial forests, TotalRows 0/5/50/63) the writer is suspended inside its critical section while 11 query methods (about 18 argument variants) run in their own goroutines: each must stay blocked until the writer is released and then return the answer of a twin instance after the block (model prediction from the table) and in any case an answer of the state before or after the block (oracle); randomized stress: readers calling random queries against a writer cycling Modify/Modify/Undo/Undo and Prune/Verify(remember), every answer must belong to a block boundary of the twin; non-trivial = the block changes the answer; distinct = distinct lines; family conclin (two-operation linearizability): Nodes and CachedLeaves of the instance are wrapped so that every Get/Put/Delete/Length/ForEach (and every verifPoint site) is a suspension point; for ordered pairs (X, Y) of state-changing operations with overlapping paths (Verify(remember), VerifyPartialProof(remember), Ingest, Prune, Modify, Undo of the newest block, Read of an earlier state; full and partial forests, TotalRows 0/5/50/63) X is parked at its k-th access (k = 1, 2, K-1, K and random others), Y is started, X released: final state (NumLeaves, TotalRows, Nodes, CachedLeaves, roots) and both results must equal those of X;Y or of Y;X on twin instances (oracle) and, when the table says X holds the write lock for all its accesses, Y must stay blocked and the outcome be that of X;Y (model); the same with about 25 read-only queries as Y (answer of the twin before or after X; X unaffected); non-trivial = the two orders differ; family conclinrd (readers parked mid-call): forests of 130-600 leaves (three of four worlds 300-600; full and partial, TotalRows 0/12/50/63); X = a read-only query with many map accesses (GetLeafHashPositions of all cached live leaves, Prove of 40-160 leaves, GetMissingPositions of 30-150 targets, Write with every serialized element a suspension point, GetStump, GetRoots) parked at its k-th access (k = 1, 2, K-1, K, every 128m+1, then 64m+1, 128m, 256m and random others), Y = Modify deleting 15-55 cached leaves all over the forest (single leaves and runs of neighbours) and adding 0-40 leaves (sometimes across the next power of two) or Undo of the newest block; after Y finished or is found blocked X is released: the answer of X must equal the twin answer before Y or after Y, never a mixture (oracle; the driver reports which atoms of the answer belong to which state), Y must return what it returns alone and the final state must be the twin state after Y, and, when the table says X holds the read lock for all its accesses, Y must stay blocked and X answer for the state before Y (model); non-trivial = the two twin answers differ',
        'trusted': ['translator /verif/translate/locktable (syntactic, Go standard library only; refuses what it does not understand), re-run every check',
                    'Go memory model, runtime sync.RWMutex, scheduler and map implementation (not modelled: the theorems are about the extracted lock discipline under an interleaving semantics of one RWMutex)',
                    'the race detector only sees executed schedules (partial by nature); the early/blocked classification uses a 25 ms window: a starved query goroutine can only be misread as blocked, never as early',
                    'correspondence harness /verif/harness (families conc and conclin, built with -race) + compiled driver',
                    'family conclin: the hook in the map wrappers synchronises the goroutines (atomic counter), so the race detector sees fewer races there (family conc runs without wrappers); a writer Y is classified blocked after a 20 ms (thorough 40 ms) wait; suspension points are the map accesses and verifPoint sites only: a window between two lock operations with no access in it is reached only through the Go mutex hand-over order',
                    'family conclinrd: a reader that gives up the read lock between two accesses is exposed through sync.RWMutex writer preference (the pending Modify/Undo is admitted at the reader\'s RUnlock and before its next RLock); a lock gap after the last map access of a call is not reachable',
                    'Lean compiler/runtime only for the executable driver, never for a theorem'],
        'assumptions': ['clients use the methods: direct access to the exported struct fields (CachedLeaves, Nodes, NumLeaves, TotalRows, Full) from outside the package bypasses the lock and is out of scope',
                        'method bodies are over-approximated by their direct footprints and callees (any order, repetition, prefix): values and arguments are abstract',
                        'a block = one write section: whether a section that returns an error or panics half-way leaves a half-applied state is the subject of C04/C05 (reject atomically), not of C12',
                        'CachedLeavesInterface / NodesInterface implementations do not touch the MapPollard they belong to (Put/Delete = write, Get/ForEach/Length = read of that field)'],
    },
    'C17': {
        'families': [{'name': 'alias', 'shards': {'quick': 12, 'thorough': 16}, 'seeds': {'quick': 1, 'thorough': 2}},
                     {'name': 'aliasexh', 'shards': {'quick': 8, 'thorough': 16}}],
        'kinds': ['alias:*', 'later:*', 'aliascall:*', 'aliasinfo:*', 'roots', 'prove', 'verify',
                  'stumpupdate', 'modifyfail', 'undofail'],
        'regenerate': [{'what': 'translator ownership cannot analyse the Go source (write-site table Gen/Ownership.lean not regenerated)',
                        'cmd': ['bash', '-c', 'mkdir -p .work/bin && (cd translate/ownership && go test -count=1 . >/dev/null && go build -o ../../.work/bin/ownership .) && '
                                '.work/bin/ownership "' + _os.environ.get('VERIF_REPO', '/repo') + '" lean/UtreexoVerif/Gen/Ownership.lean .work/ownership_report.txt']}],
        'tie_modules': ['UtreexoVerif.Props.C17'],
        'lean_modules': [],
        'theorems': ['UtreexoVerif.Props.C17.' + t for t in ['frame', 'frame_read', 'provenance_sound', 'C17_for_slice_programs_partial',
                     'ownership_ok', 'allowList_used', 'copying_helpers_fresh', 'entries_are_the_api_set']] +
                    ['UtreexoVerif.Proofs.Mem.run_frame', 'UtreexoVerif.Proofs.Mem.wellTagged_writesFresh'],
        'unproved': ['UtreexoVerif.Props.C17.C17_statement (about Go executions: not a Lean theorem; proved only for well-tagged slice programs)'],
        'rule': 'alias lines: one per (API call, caller-owned argument slice): the whole backing array (canaries before, data, spare capacity of canaries) compared before/after the call, in 5 layouts (separate arrays with spare capacity, all slices of a type in one array in both orders, cap==len, earlier results passed as they are) plus the same slice passed as two arguments where the API allows; later lines: one per (API call, kind of earlier result): every result returned earlier (proofs, hashes, roots, UpdateData, missing positions, root indexes) and every earlier block-data array re-compared after every later call; the same block-data objects are verified, applied to Stump, Pollard, MapPollard full/partial, undone and re-applied; aliascall: every call on an honest block must succeed; roots/prove/verify/stumpupdate: the history is replayed on the specification; non-trivial alias = non-empty slice; distinct = distinct lines',
        'trusted': COMMON_TRUST + ['translator /verif/translate/ownership: syntactic, flow- and context-insensitive provenance analysis of write sites (TRUSTED; its table is what ownership_ok is about)',
                                   'Model/Mem.lean is a model of Go slices written by hand from the language specification (append in place iff capacity suffices, copy/append read before write)'],
        'assumptions': ['partial by nature: the provenance analysis is syntactic and trusted, the runtime part samples',
                        'a light client whose cached proof deviates after Proof.Update/Undo (C07/C08 matters) is re-synchronised with the canonical proof'],
    },
    'C14': {
        'families': [{'name': 'proofops', 'shards': {'quick': 8, 'thorough': 16}, 'seeds': {'quick': 1, 'thorough': 2}},
                     {'name': 'proofopsexh', 'shards': {'quick': 12, 'thorough': 16}}],
        'kinds': ['addproof*', 'subset*', 'missing*', 'mapmissing*', 'mapnodes'],
        'dist_kinds': ['dist:addproof', 'dist:subset', 'dist:missing', 'dist:mapmissing'],
        'lean_modules': ['UtreexoVerif.Props.C14', 'UtreexoVerif.Props.C14b', 'UtreexoVerif.Props.C14c', 'UtreexoVerif.Props.C14d', 'UtreexoVerif.Props.C14Map'],
        'theorems': ['UtreexoVerif.Props.C14Map.' + t for t in ['map_getMissingPositions_exact', 'map_getMissingPositions_mem', 'map_getMissingPositions_mem_getHash', 'map_getMissingPositions_positions', 'map_getMissingPositions_nil_iff', 'map_getMissingPositions_cached', 'map_getMissingPositions_nil_iff_self', 'map_getMissingPositions_full', 'map_verifyPartialProof_eq_verify', 'map_verifyPartialProof_complete', 'map_verifyPartialProof_complete_full', 'map_verifyPartialProof_short', 'map_verifyPartialProof_dropped', 'map_verifyPartialProof_never_panics', 'map_verifyPartialProof_accepts_only_true', 'map_verifyPartialProof_wrong_hash_rejected', 'Example.missing_reports_computable', 'Example.nil_but_not_cached', 'Example.missing21']] + ['UtreexoVerif.Proofs.VerifyUnique.verify_proof_unique'] + ['UtreexoVerif.Props.C14.' + t for t in ['C14_addProof', 'C14_missing_positions', 'C14_missing', 'getProofSubset_refines', 'C14_subset', 'C14_missing_statement_false', 'C14_subset_statement_false']] + ['UtreexoVerif.Proofs.LeafPositions.leaf_positions_PPHyp', 'UtreexoVerif.Proofs.LeafPositions.leaf_anti'] + ['UtreexoVerif.Props.C14.' + t for t in ['addProof_closed_form', 'addProof_total', 'addProof_outputs', 'addProof_proof_identity',
                     'mem_extraTargets', 'getMissingPositions_spec', 'getProofSubset_ok', 'getProofSubset_err_of_uncovered',
                     'coverage_check_passes', 'getProofSubset_total', 'addProof_panics_on_short_proof',
                     'addProof_silent_on_short_proof', 'getMissingPositions_refines', 'addProof_refines',
                     'mem_proofPositions_union']] +
                    ['UtreexoVerif.Proofs.ProofOps.' + t for t in ['mergeHP2_consistent', 'mem_subtractU64_iff',
                     'subsetHP_positions_of_subtract_nil', 'strict_mergeU64', 'mergeHP_positions', 'subtractHP_positions', 'ppInner_fuel', 'ppOuter_fuel']],
        'unproved': ['C14_subset_statement / C14_missing_statement exactly as first written are FALSE (C14_missing_statement_false: a leaf desired twice is reported twice, also by the Go code; C14_subset_statement_false: a live leaf carrying the all-zero hash makes calculateHashes reject the canonical proof); proved instead: the primed statements C14_missing_positions / C14_missing (desired duplicate-free) and C14_subset (no parent hash and no live leaf is the zero hash, the hypotheses of C02), and C14_addProof as first written'],
        'rule': 'AddProof, GetProofSubset, GetMissingPositions (function) and MapPollard.GetMissingPositions + VerifyPartialProof called on reachable states with proofs from the reference prover: every pair of target subsets (and every covering set / wanted subset / permutation of <= 4 wanted targets, targets and hashes in a random parallel order, one uncovered target per covering set) of every forest shape reachable by add-delete-add with <= 5 (quick) / 6 (thorough) live leaves (one more sampled), random pairs (overlapping, disjoint, siblings, different trees, one empty, nested) on random histories up to 40 / 300 leaves; each call is replayed on the Lean transliteration (also on arbitrary unsorted / duplicate / out-of-forest targets of consistent lengths, <= 12 elements, and on proofs of the wrong length) and judged by the oracle written from the property text on the specification forest (Spec.Index.canon / proofPositions / computable ancestors); completed proofs are verified by the Go Verify and by its model; non-trivial = non-empty result; distinct = distinct trace lines',
        'trusted': COMMON_TRUST,
        'assumptions': [],
    },
    'C09': {
        'families': [{'name': 'partial', 'shards': {'quick': 16, 'thorough': 16}, 'seeds': {'quick': 1, 'thorough': 3}},
                     {'name': 'partialexh', 'shards': {'quick': 16, 'thorough': 16}}],
        'kinds': ['p:*', 'pm:*'],
        'lean_modules': ['UtreexoVerif.Props.C09', 'UtreexoVerif.Props.C09b', 'UtreexoVerif.Props.C09c', 'UtreexoVerif.Props.NZ'],
        'theorems': ['UtreexoVerif.Props.NZ.nzB8', 'UtreexoVerif.Props.NZ.not_CR', 'UtreexoVerif.Props.NZ.nz_hashBytesOK_compatible'] + ['UtreexoVerif.Props.C09b.' + t for t in ['inv_addSingle', 'inv_add', 'roots_add', 'inv_ingest', 'inv_verify', 'inv_remove', 'inv_prune', 'inv_modify', 'modify_encoding_independent', 'inv_undo', 'C09_reach_all_but_undo', 'C09_reach', 'lookups_reach', 'lookups_reachU', 'Finding.C09_fails_leaf_is_node']] + ['UtreexoVerif.Props.C09c.' + t for t in ['finv_new', 'roots_full', 'hasCached_full', 'prove_full', 'getHash_full', 'getLeafPosition_full', 'verify_sound_full', 'finv_add', 'finv_remove', 'finv_modify', 'finv_modify_any_order', 'finv_ingest', 'finv_verify', 'finv_prune', 'finv_undo', 'reachFull_finv', 'C01_full', 'C09_reach_full', 'lookups_reach_full']] + ['UtreexoVerif.Proofs.MapUndoAll.sinv_undo', 'UtreexoVerif.Proofs.MapUndoAll.undoAdd_spec', 'UtreexoVerif.Proofs.MapUndoAll.undoDeletion_spec', 'UtreexoVerif.Proofs.MapDeTwin.deTwin_spec_live', 'UtreexoVerif.Proofs.MapRemoveAll.sinv_remove', 'UtreexoVerif.Proofs.MapIngest.sinv_ingest', 'UtreexoVerif.Proofs.MapAddMerge.sinv_add'] + ['UtreexoVerif.Props.C09.' + t for t in C09_THEOREMS] + C09_HELPERS,
        'unproved': C09_UNPROVED,
        'rule': 'partial (non-full) MapPollards started with NewMapPollard(false) under TotalRows 0/1/2/3/4/5/50/63 or from bare roots (NewMapPollardFromRoots) in the middle of a history, plus full instances, driven through random and bounded-exhaustive interleavings of Modify (random Remember flags), Verify(remember) also with surplus proof hashes, Ingest, VerifyPartialProof, Prune and Undo next to a full Pollard as reference prover; after EVERY operation NumLeaves, TotalRows, CachedLeaves and Nodes are dumped through ForEach and (a) judged by an oracle written from the property text against the specification forest and the expected cached set (true hashes, CachedLeaves exact, required <= stored <= allowed, Prove of cached subsets = canonical proof, Prune keeps what is needed and adds nothing) and (b) compared ENTRY BY ENTRY (incl. remember flags) with the Lean transliteration of mappollard.go replaying the same operation; non-trivial dump = at least one cached leaf',
        'trusted': COMMON_TRUST,
        'assumptions': ['the reference prover (a full Pollard) supplies the honest proofs; its proofs are themselves compared with the canonical proof of the specification forest by C02',
                        'MapPollard.TotalRows <= 254 (NewMapPollard sets 63; the uint8 row loops of mappollard.go would not terminate for 255)'],
    },
    'C13': {
        'families': [{'name': 'serial', 'shards': {'quick': 8, 'thorough': 16}, 'seeds': {'quick': 1, 'thorough': 3}},
                     {'name': 'serialexh', 'shards': {'quick': 8, 'thorough': 16}}],
        'kinds': ['ser:*', 'roots', 'pos', 'posbatch', 'hash', 'prove', 'count', 'cachedcount', 'modifyfail', 'undofail', 'ph:ser:*'],
        'lean_modules': ['UtreexoVerif.Props.C13', 'UtreexoVerif.Props.C13b', 'UtreexoVerif.Props.C13Heap', 'UtreexoVerif.Props.C13Map', 'UtreexoVerif.Props.C13MapNote'],
        'theorems': ['UtreexoVerif.Props.C13Map.' + t for t in ['map_restored_bisim', 'map_restored_bisim_bytes32', 'map_restored_behaves_identically', 'map_restored_behaves_identically_full', 'inv_write_read', 'finv_write_read', 'sinv_write_read', 'C09_reach_ser', 'C09_reach_full_ser', 'lookups_reach_ser', 'lookups_reach_full_ser', 'twin_queries', 'twin_step', 'lockstep', 'twinF_queries', 'lockstepF', 'read_ok_sane', 'cr_hashBytesOK_incompatible']] + ['UtreexoVerif.Proofs.SerialMapInv.' + t for t in ['read_write', 'restore_equiv', 'Inv_congr', 'FInv_congr', 'SInv_congr', 'read_into_used']] + ['UtreexoVerif.Proofs.MapSim.' + t for t in ['sim_call', 'trace_equiv', 'observe_equiv']] + ['UtreexoVerif.Props.C13Map.restored_bisim'] + ['UtreexoVerif.Props.C13Heap.' + t for t in ['writeToH_refines', 'writeToH_sink_ok', 'writeToH_sink_fail', 'encodePollard_equiv', 'restoreH_count', 'restoreH_total', 'restoreH_parse_fail', 'restoreH_refines', 'noMiniCollision_encode', 'restoreH_roundtrip', 'restoreH_roundtrip_shape', 'restoreH_prefix', 'restore_write_behaves_identically', 'delsOK_modify', 'restored_modify_agrees', 'restored_queries_agree', 'writeToH_same', 'restorePollard_leafRecs', 'Example.restoreH_agrees_statement_false']] + ['UtreexoVerif.Props.C13.' + t for t in ['C13', 'C13_bytes32', 'okBytes32', 'readFull_chunking', 'pollard_roundtrip', 'pollard_size',
                     'pollard_prefix', 'pollard_sink_ok', 'pollard_sink_fail', 'pollard_chunking', 'pollard_total',
                     'wire_leaves_perm', 'map_roundtrip', 'map_prefix', 'map_sink_ok', 'map_sink_fail', 'map_chunking',
                     'map_total', 'map_read_into_used_receiver']] +
                    ['UtreexoVerif.Proofs.Serial.' + t for t in ['readLoop_spec', 'unle64_le64', 'readOne_encNode',
                     'readOne_prefix', 'writeOne_spec', 'chunks_cover_all', 'numRoots_eq']],
        'rule': 'after exhaustive small and structured random histories every forest (Pollard; MapPollard full / partial-remember-all / sparse partial with pruning, TotalRows 0,1,3,7,50,63) is written; the bytes are compared with the wire format defined on the specification forest (map format: with the model encoding of the dumped maps in the order Go walked them); the stream is restored through whole / 1-byte / half / data-with-EOF / random-chunk readers, from every truncation point (all for streams <= 700 bytes, field boundaries +-1 and random beyond) and written into sinks failing at every such offset; every Go outcome and byte count is compared with the Lean model of RestorePollardFrom / MapPollard.Read / WriteTo / Write on the same input, and the property oracle is evaluated on it (full stream: ok, count = length, restored instance identical incl. pointer structure / maps; strict prefix: err; failing sink: err with count <= accepted; SerializeSize = length; no panic); restored instances are then driven by the following blocks and undos and compared with the specification and with their originals',
        'trusted': COMMON_TRUST + ['io.Reader / io.Writer implementations are represented by the chunk-list reader and the k-byte sink of Model/Serial.lean'],
        'assumptions': ['Pollard.NodeMap is modelled as 12-byte key -> node hash; 12-byte key collisions between live leaves are excluded (hypothesis of the theorems)',
                        'map iteration order is a parameter of the model; the order Go used is recovered from the bytes'],
    },
    'C15': {
        'families': [{'name': 'schedule', 'shards': {'quick': 6, 'thorough': 16}, 'seeds': {'quick': 1, 'thorough': 2}},
                     {'name': 'scheduleexh', 'shards': {'quick': 9, 'thorough': 16}},
                     {'name': 'schedulemal', 'shards': {'quick': 1, 'thorough': 4}}],
        'kinds': ['sched', 'sched:*', 'sttl', 'sttl:*', 'ttl:*', 'gpp', 'msched', 'msched:*'],
        'lean_modules': ['UtreexoVerif.Props.C15', 'UtreexoVerif.Props.C15b'],
        'theorems': ['UtreexoVerif.Props.C15.' + t for t in ['C15', 'genTTLs_exact', 'C15_of_exact', 'C15_statement_iff', 'genTTLs_exact_statement_iff', 'undoAdd_inverse', 'undoDel_inverse', 'getPrevPos_inverse', 'undoSingleAdd_large_witness', 'genTTLs_large_witness', 'genTTLs_big_ok']] + ['UtreexoVerif.Props.C15.' + t for t in ['ttls_positive', 'order_ascending', 'order_strict',
                     'scheduled_is_entry', 'memory_bound', 'complete_wrt_tables', 'complete_of_limit_ge_targets', 'generate_total', 'C15_partial',
                     'witness_summaries', 'witness_run', 'witness_run_fixed', 'C15_fails_createdMovedByUndoDel']] +
                    ['UtreexoVerif.Proofs.Schedule.' + t for t in ['expire_inv', 'insert_inv', 'block_inv', 'loop_inv',
                     'schedule_main', 'memory_bound', 'scheduleOfTTLs_sorted', 'genTTLs_posTTL', 'genTTLs_entries_le']],
        'unproved': ['C15_statement beyond 2^62 leaves: C15 / genTTLs_exact are proved for every history of at most 2^62 leaves (C15_upto (2^62)); above that undoSingleAdd wraps in uint64 (undoSingleAdd_large_witness, genTTLs_large_witness are machine-checked witnesses at 0x5555555555555555 leaves), so the bound is what the code carries, not a proof gap'],
        'rule': 'block histories played on a real Pollard prover (the harness knows every leaf\'s insertion slot, birth and death block; bounded-exhaustive 4-5 block histories and structured random ones with tree-emptying blocks and additions overwriting empty roots); the summaries (prover targets, addition counts) are fed to a CachingScheduleTracker; GenerateCachingSchedule is called for limits 1,2,3,small,total-1,total,total+1,65536 (exhaustive family: every limit 1..total+1); the driver checks the targets against the specification forest, compares tracker state, ttl tables and schedule with the Lean transliteration (Model/Schedule.lean) and evaluates the C15 oracle written from the property text (Spec/Sched.lean: order/uniqueness, slot correctness, memory bound, completeness); getPrevPos is additionally called directly on the per-block tracker state with honest and arbitrary cached positions (gpp lines) and GenerateCachingSchedule on ARBITRARY summaries (family schedulemal: random/repeated/out-of-forest targets; model correspondence incl. panics, plus the ordering theorem that holds for all inputs); non-trivial = non-empty schedule',
        'trusted': COMMON_TRUST,
        'assumptions': ['Go int is modelled by unbounded Int (block indexes, ttl values, slice indexes)',
                        'limits are below 2^40 (make([]ttlInfo, 0, maxMemory) does not exhaust memory)',
                        'at most 65535 additions per block (numAdds is a uint16 in the API)'],
    },
}

# ---------------------------------------------------------------------------------------------
# Sparse forests with huge leaf counts (rows 32..63): families `sparse` / `sparseexh`
# (harness/fam_sparse.go, lean/UtreexoVerif/Driver/Sparse.lean).  State-free lines: the pure
# functions of (numLeaves, positions, hashes) are driven on fabricated consistent forests of up
# to 2^63 leaves and compared with the same Lean models; the ground truth (`sforest`) is
# re-hashed by the driver; `sexpect` lines carry expectations derived from the harness's own
# (row, offset) geometry.
SPARSE = {'name': 'sparse', 'shards': {'quick': 4, 'thorough': 16}, 'seeds': {'quick': 1, 'thorough': 2}}
SPARSE2 = {'name': 'sparse', 'shards': {'quick': 2, 'thorough': 16}, 'seeds': {'quick': 1, 'thorough': 2}}
SPARSEEXH = {'name': 'sparseexh', 'shards': {'quick': 6, 'thorough': 16}}
SPARSE_RULE = ('; families sparse / sparseexh: the same calls on fabricated SPARSE forests of up to 2^63 leaves '
               '(leaf counts 2^k, 2^k+-1, 2^k+2^j(+1), runs of ones, random 63-bit patterns, weight on k = 31, 32, 33, 62, 63, '
               'one in eight <= 64 leaves; 1-6 targets: same / different trees, siblings, cousins, edges of a tree, the lone '
               'row-0 root, leaves 2^31 / 2^32 apart, trees 0..62 rows apart; empty roots), built by the harness from its own '
               '(row, offset) geometry and re-hashed by the driver')
_SPARSE_USE = {
    # property: (families, extra kinds)
    'C03': ([SPARSE, SPARSEEXH], ['sverify*', 'sforest']),
    'C04': ([SPARSE, SPARSEEXH], ['sverify*', 'sforest']),
    'C01': ([SPARSE2, SPARSEEXH], ['stumpupdate']),
    'C05': ([SPARSE2, SPARSEEXH], []),
    'C11': ([SPARSE2, SPARSEEXH], []),
    'C07': ([SPARSE, SPARSEEXH], ['sverify:afterupdate', 'sexpect:afterupdate']),
    'C08': ([SPARSE, SPARSEEXH], ['sverify:afterundo', 'sexpect:afterundo']),
    'C14': ([SPARSE, SPARSEEXH], ['sverify:addproof', 'sverify:subset', 'sverify:missing',
                                  'sexpect:addproof', 'sexpect:subset*', 'sexpect:missing']),
}
# experiment switches: VERIF_NO_SPARSE=1 runs the properties without the sparse families,
# VERIF_ONLY_SPARSE=1 with nothing else (used to tell which family catches a seeded change)
for _p, (_f, _k) in ({} if _os.environ.get('VERIF_NO_SPARSE') else _SPARSE_USE).items():
    PROPS[_p]['families'] = ([] if _os.environ.get('VERIF_ONLY_SPARSE') else PROPS[_p]['families']) + _f
    PROPS[_p]['kinds'] = PROPS[_p]['kinds'] + [k for k in _k if k not in PROPS[_p]['kinds']]
    PROPS[_p]['dist_kinds'] = PROPS[_p].get('dist_kinds', []) + ['dist:sparse', 'dist:sverify']
    PROPS[_p]['rule'] = PROPS[_p]['rule'] + SPARSE_RULE
